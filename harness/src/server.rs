//! Driver for `polytune-server-core`: real `PolicyState` actors for every
//! (computation, party), connected by an in-process `PolicyClient` whose
//! coordination RPCs and output notifications park at *gates* that the driver
//! releases one at a time; the `--cfg polytune_verif` hooks add gates inside
//! the state machine (command dequeued, permit acquisition, spawned tasks)
//! and probes (state kind after each command). A run is therefore a sequence
//! of gate releases and API calls -- the actions of `spec/ServerCore.tla` --
//! either scripted by a TLC behaviour or chosen by a seeded random policy.
//! After every step the driver lets the system settle and logs everything
//! observable; TLC judges the log.

use std::{
    collections::{BTreeMap, HashMap},
    sync::{
        Arc, LazyLock, Mutex,
        atomic::{AtomicI64, AtomicU64, Ordering},
    },
    time::{Duration, Instant},
};

use polytune_server_core::{
    ConstsRequest, HandleError, MpcMsg, OutputError, Policy, PolicyClient, PolicyClientBuilder,
    PolicyState, PolicyStateHandle, RunRequest, ValidateRequest,
};
use rand::{Rng, SeedableRng, seq::IndexedRandom};
use rand_chacha::ChaCha8Rng;
use serde::{Deserialize, Serialize};
use serde_json::{Value, json};
use tokio::sync::{Semaphore, oneshot};

#[derive(Deserialize, Serialize, Clone, Debug)]
pub struct Pol {
    pub leader: usize,
    pub prog: String,
    pub out: bool,
    pub consts: bool,
    pub typed: bool,
}

#[derive(Deserialize, Serialize, Clone, Debug, Default)]
pub struct Faults {
    #[serde(default)]
    pub cancel: usize,
    #[serde(default)]
    pub rpcfail: usize,
    #[serde(default)]
    pub stray: usize,
}

#[derive(Deserialize, Serialize, Clone, Debug)]
pub struct Scenario {
    pub n: usize,
    pub conc: Vec<usize>,
    /// pol[c][p]
    pub pol: Vec<Vec<Pol>>,
    #[serde(default)]
    pub faults: Faults,
    #[serde(default)]
    pub fix: Value,
    #[serde(default)]
    pub record: bool,
    /// [from, to]: MPC messages on this directed link are parked at a gate of their own ("msg") and released by
    /// the driver only when nothing else can move (a slow link; per-pair order is kept: the sender awaits each call)
    #[serde(default, skip_serializing_if = "Vec::is_empty")]
    pub slow: Vec<usize>,
    /// parties whose schedule() call is made only when nothing else can move (the leader's validate request reaches
    /// them before their own policy does)
    #[serde(default, skip_serializing_if = "Vec::is_empty")]
    pub late: Vec<usize>,
}

/// One driver step, in the JSON shape MC_Server exports.
#[derive(Deserialize, Serialize, Clone, Debug, PartialEq)]
pub struct Step {
    /// api | cmd | rpc | acq | ctask | mtask | out
    pub g: String,
    pub c: usize,
    pub p: usize,
    #[serde(default, skip_serializing_if = "Option::is_none")]
    pub what: Option<String>,
    #[serde(default, skip_serializing_if = "Option::is_none")]
    pub name: Option<String>,
    #[serde(default, skip_serializing_if = "Option::is_none")]
    pub k: Option<String>,
    #[serde(default, skip_serializing_if = "Option::is_none")]
    pub to: Option<usize>,
    #[serde(default, skip_serializing_if = "Option::is_none")]
    pub mode: Option<String>,
    #[serde(default, skip_serializing_if = "Option::is_none")]
    pub val: Option<String>,
}

#[derive(Deserialize, Serialize, Clone, Debug)]
pub struct ServerJob {
    pub id: String,
    pub scen: Scenario,
    /// inputs[c][p], cvals[c][p] (constant supplied by p if pol.consts)
    pub inputs: Vec<Vec<u64>>,
    pub cvals: Vec<Vec<u64>>,
    #[serde(default)]
    pub steps: Option<Vec<Step>>,
    #[serde(default)]
    pub seed: u64,
    /// "current" (deterministic) or "multi"
    #[serde(default)]
    pub runtime: String,
    #[serde(default)]
    pub tag: Value,
    /// upper bound on random steps
    #[serde(default)]
    pub max_steps: usize,
}

// ---------------------------------------------------------------------------

#[derive(Clone, Debug, PartialEq, Eq)]
enum Mode {
    Deliver,
    Fail,
}

struct Parked {
    step: Step,
    tx: oneshot::Sender<Mode>,
}

#[derive(Default)]
struct HubInner {
    parked: Vec<Parked>,
    handles: HashMap<(usize, usize), PolicyStateHandle>,
    kinds: BTreeMap<(usize, usize), String>,
    outs: BTreeMap<(usize, usize), Vec<Value>>,
    msgs: BTreeMap<usize, u64>,
    api: BTreeMap<(usize, usize, String), Vec<String>>,
    /// a command of this actor was released and its handler has not finished
    busy: BTreeMap<(usize, usize), bool>,
    /// coordination RPCs that returned an error to their caller: (c, from, kind, to)
    rpc_failed: Vec<(usize, usize, String, usize)>,
}

pub struct Hub {
    inner: Mutex<HubInner>,
    activity: AtomicU64,
    compiling: AtomicI64,
    slow: Vec<usize>,
}

static HUBS: LazyLock<Mutex<HashMap<u64, Arc<Hub>>>> = LazyLock::new(Default::default);
static NEXT_JOB: AtomicU64 = AtomicU64::new(1);

fn tag_of(job: u64, c: usize, p: usize) -> u64 {
    (job << 16) | ((c as u64) << 8) | p as u64
}
fn untag(tag: u64) -> (u64, usize, usize) {
    (tag >> 16, ((tag >> 8) & 0xff) as usize, (tag & 0xff) as usize)
}

/// Install the process-wide gate and probe functions (idempotent).
pub fn install_hooks() {
    use polytune_server_core::verif::{GateFn, ProbeFn, set_gate, set_probe};
    let g: GateFn = Arc::new(|point, detail, tag| {
        Box::pin(async move {
            let (job, c, p) = untag(tag);
            let hub = HUBS.lock().expect("hubs").get(&job).cloned();
            if let Some(hub) = hub {
                hub.hook_gate(point, detail, c, p).await;
            }
        })
    });
    set_gate(Some(g));
    let pr: ProbeFn = Arc::new(|point, detail, tag| {
        let (job, c, p) = untag(tag);
        let hub = HUBS.lock().expect("hubs").get(&job).cloned();
        if let Some(hub) = hub {
            hub.hook_probe(point, detail, c, p);
        }
    });
    set_probe(Some(pr));
}

fn step(g: &str, c: usize, p: usize) -> Step {
    Step {
        g: g.into(),
        c,
        p,
        what: None,
        name: None,
        k: None,
        to: None,
        mode: None,
        val: None,
    }
}

impl Hub {
    fn bump(&self) {
        self.activity.fetch_add(1, Ordering::SeqCst);
    }

    async fn park(&self, st: Step) -> Mode {
        let (tx, rx) = oneshot::channel();
        self.inner.lock().expect("hub").parked.push(Parked { step: st, tx });
        self.bump();
        let m = rx.await.unwrap_or(Mode::Deliver);
        self.bump();
        m
    }

    async fn hook_gate(&self, point: &'static str, detail: &'static str, c: usize, p: usize) {
        match point {
            "cmd" => {
                if detail == "MpcMsg" {
                    self.bump();
                    return;
                }
                let mut s = step("cmd", c, p);
                s.name = Some(match detail {
                    "InternalConstsSent" => "ICS".to_string(),
                    d => d.to_string(),
                });
                self.park(s).await;
            }
            "acquire" => {
                self.park(step("acq", c, p)).await;
            }
            "consts_task" => {
                self.park(step("ctask", c, p)).await;
            }
            "mpc_task" => {
                self.park(step("mtask", c, p)).await;
            }
            _ => {}
        }
    }

    fn hook_probe(&self, point: &'static str, detail: &str, c: usize, p: usize) {
        match point {
            "handled" => {
                let mut g = self.inner.lock().expect("hub");
                g.kinds.insert((c, p), detail.to_string());
                g.busy.insert((c, p), false);
            }
            "compile_start" => {
                self.compiling.fetch_add(1, Ordering::SeqCst);
            }
            "compile_end" => {
                self.compiling.fetch_sub(1, Ordering::SeqCst);
            }
            _ => {}
        }
        self.bump();
    }

    fn handle(&self, c: usize, p: usize) -> Option<PolicyStateHandle> {
        self.inner.lock().expect("hub").handles.get(&(c, p)).cloned()
    }

    /// Parked gates whose waiting future still exists.
    fn parked_steps(&self) -> Vec<Step> {
        let mut g = self.inner.lock().expect("hub");
        g.parked.retain(|pk| !pk.tx.is_closed());
        g.parked.iter().map(|pk| pk.step.clone()).collect()
    }

    fn release(&self, want: &Step, mode: Mode) -> bool {
        let mut g = self.inner.lock().expect("hub");
        g.parked.retain(|pk| !pk.tx.is_closed());
        let idx = g.parked.iter().position(|pk| same_gate(&pk.step, want));
        match idx {
            Some(i) => {
                let pk = g.parked.remove(i);
                if pk.step.g == "cmd" {
                    g.busy.insert((pk.step.c, pk.step.p), true);
                }
                drop(g);
                let _ = pk.tx.send(mode);
                self.bump();
                true
            }
            None => false,
        }
    }
}

fn same_gate(a: &Step, b: &Step) -> bool {
    a.g == b.g
        && a.c == b.c
        && a.p == b.p
        && match a.g.as_str() {
            "cmd" => a.name == b.name,
            "rpc" => a.k == b.k && a.to == b.to,
            "msg" => a.to == b.to,
            // several notifications of one party may be parked: match on the value if given
            "out" => b.val.is_none() || a.val == b.val,
            _ => true,
        }
}

#[derive(Debug, thiserror::Error)]
pub enum CErr {
    #[error("injected transport failure")]
    Injected,
    #[error("peer unknown")]
    NoPeer,
    #[error("peer state machine stopped")]
    Stopped,
    #[error("peer answered with an error: {0}")]
    Peer(String),
}

fn map_handle<E: std::fmt::Display>(r: Result<(), HandleError<E>>) -> Result<(), CErr> {
    match r {
        Ok(()) => Ok(()),
        Err(HandleError::StateMachineStopped) => Err(CErr::Stopped),
        Err(HandleError::PolicyStateError(e)) => Err(CErr::Peer(e.to_string())),
    }
}

#[derive(Clone)]
pub struct Client {
    hub: Arc<Hub>,
    c: usize,
    p: usize,
}

#[derive(Clone)]
pub struct Builder {
    hub: Arc<Hub>,
    p: usize,
}

impl PolicyClientBuilder for Builder {
    type Client = Client;
    fn new_client(&self, policy: &Policy) -> Client {
        Client {
            hub: self.hub.clone(),
            c: policy.computation_id.as_u128() as usize,
            p: self.p,
        }
    }
}

impl Client {
    fn failed(&self, k: &str, to: usize) {
        self.hub
            .inner
            .lock()
            .expect("hub")
            .rpc_failed
            .push((self.c, self.p, k.to_string(), to));
    }

    async fn rpc_gate(&self, k: &str, to: usize) -> Mode {
        let mut s = step("rpc", self.c, self.p);
        s.k = Some(k.into());
        s.to = Some(to);
        self.hub.park(s).await
    }
}

fn classify_output(r: &Result<polytune::garble_lang::literal::Literal, OutputError>) -> (String, i64) {
    use polytune::garble_lang::literal::Literal;
    match r {
        Ok(Literal::NumUnsigned(v, _)) => ("ok".into(), *v as i64),
        Ok(_) => ("ok".into(), -1),
        Err(OutputError::Cancelled) => ("cancelled".into(), -1),
        Err(OutputError::MpcError(_)) => ("mpcerr".into(), -1),
        Err(OutputError::RequestRunError { .. }) => ("runerr".into(), -1),
        Err(OutputError::SendConstsError { .. }) => ("constserr".into(), -1),
        Err(OutputError::CompileError(_)) | Err(OutputError::CompilePanic) => ("compileerr".into(), -1),
        Err(e) => {
            if std::env::var("PT_LOUD").is_ok() {
                eprintln!("output error: {e:?}");
            }
            ("othererr".into(), -1)
        }
    }
}

impl PolicyClient for Client {
    type Error = CErr;

    async fn validate(&self, to: usize, req: ValidateRequest) -> Result<(), CErr> {
        if self.rpc_gate("validate", to).await == Mode::Fail {
            self.failed("validate", to);
            return Err(CErr::Injected);
        }
        let h = self.hub.handle(self.c, to).ok_or(CErr::NoPeer)?;
        let r = map_handle(h.validate(req).await);
        if r.is_err() {
            self.failed("validate", to);
        }
        self.hub.bump();
        r
    }

    async fn run(&self, to: usize, req: RunRequest) -> Result<(), CErr> {
        if self.rpc_gate("run", to).await == Mode::Fail {
            self.failed("run", to);
            return Err(CErr::Injected);
        }
        let h = self.hub.handle(self.c, to).ok_or(CErr::NoPeer)?;
        let r = map_handle(h.run(req).await);
        if r.is_err() {
            self.failed("run", to);
        }
        self.hub.bump();
        r
    }

    async fn consts(&self, to: usize, req: ConstsRequest) -> Result<(), CErr> {
        if self.rpc_gate("consts", to).await == Mode::Fail {
            self.failed("consts", to);
            return Err(CErr::Injected);
        }
        let h = self.hub.handle(self.c, to).ok_or(CErr::NoPeer)?;
        let r = map_handle(h.consts(req).await);
        if r.is_err() {
            self.failed("consts", to);
        }
        self.hub.bump();
        r
    }

    async fn msg(&self, to: usize, msg: MpcMsg) -> Result<(), CErr> {
        self.hub.bump();
        if self.hub.slow.len() == 2 && self.hub.slow[0] == self.p && self.hub.slow[1] == to {
            let mut s = step("msg", self.c, self.p);
            s.to = Some(to);
            self.hub.park(s).await;
        }
        {
            let mut g = self.hub.inner.lock().expect("hub");
            *g.msgs.entry(self.c).or_insert(0) += 1;
        }
        let h = self.hub.handle(self.c, to).ok_or(CErr::NoPeer)?;
        let r = map_handle(h.mpc_msg(msg).await);
        self.hub.bump();
        r
    }

    async fn output(
        &self,
        _to: url::Url,
        result: Result<polytune::garble_lang::literal::Literal, OutputError>,
    ) -> Result<(), CErr> {
        let (val, num) = classify_output(&result);
        let mut s = step("out", self.c, self.p);
        s.val = Some(val.clone());
        self.hub.park(s).await;
        self.hub
            .inner
            .lock()
            .expect("hub")
            .outs
            .entry((self.c, self.p))
            .or_default()
            .push(json!({"val": val, "num": num}));
        self.hub.bump();
        Ok(())
    }
}

// ---------------------------------------------------------------------------

pub fn program_text(kind: &str, n: usize, consts: &[bool], typed: bool) -> String {
    if !typed {
        return "pub fn main(x0: u8, x1: u8) -> u8 { x0 + undefined_variable }".into();
    }
    let mut s = String::new();
    for (q, has) in consts.iter().enumerate() {
        if *has {
            s += &format!("const C{q}: u8 = PARTY_{q}::C;\n");
        }
    }
    let args: Vec<String> = (0..n).map(|q| format!("x{q}: u8")).collect();
    // "A": sum, "B": xor (different tokens).  "An" / "Ac": the same characters up to the position of ONE line break:
    // in "An" a line comment ends before "+ x1 ...", in "Ac" it swallows the rest of the expression -- two different
    // programs (x0 + x1 + ... vs. x0) that a comparison insensitive to line breaks cannot tell apart
    let op = if kind == "B" { " ^ " } else { " + " };
    let mut terms: Vec<String> = (0..n).map(|q| format!("x{q}")).collect();
    for (q, has) in consts.iter().enumerate() {
        if *has {
            terms.push(format!("C{q}"));
        }
    }
    match kind {
        // "M": the sum plus the low six bits of a chain t := t * (x_q + 1) mod 251 over u16 (16 rounds, cycling through
        // the parties): multiplications and divisions, several thousand AND gates, no overflow for inputs below 30 --
        // the garbled gates travel in the maximal number of chunks
        "M" => {
            let mut body = String::from("let t = 1u16; ");
            for r in 0..16 {
                body += &format!("let t = (t * ((x{} as u16) + 1u16)) % 251u16; ", r % n);
            }
            s += &format!(
                "pub fn main({}) -> u8 {{ {}{} + ((t % 64u16) as u8) }}\n",
                args.join(", "),
                body,
                terms.join(op)
            )
        }
        "An" => s += &format!("pub fn main({}) -> u8 {{ x0 //\n    + {}\n}}\n", args.join(", "), terms[1..].join(op)),
        "Ac" => s += &format!("pub fn main({}) -> u8 {{ x0 //    + {}\n}}\n", args.join(", "), terms[1..].join(op)),
        _ => s += &format!("pub fn main({}) -> u8 {{ {} }}\n", args.join(", "), terms.join(op)),
    }
    s
}

fn make_policy(job: &ServerJob, c: usize, p: usize) -> Policy {
    let scen = &job.scen;
    let pol = &scen.pol[c - 1][p];
    // the program text names the constants of the parties that supply some in
    // THIS party's view of the computation: compatible policies agree on it
    let consts: Vec<bool> = scen.pol[c - 1].iter().map(|q| q.consts).collect();
    let program = program_text(&pol.prog, scen.n, &consts, pol.typed);
    let participants: Vec<String> = (0..scen.n).map(|q| format!("http://party{q}.invalid/")).collect();
    let mut constants = serde_json::Map::new();
    if pol.consts {
        constants.insert("C".into(), json!({"NumUnsigned": [job.cvals[c - 1][p], "U8"]}));
    }
    let v = json!({
        "computation_id": uuid::Uuid::from_u128(c as u128),
        "participants": participants,
        "program": program,
        "leader": pol.leader,
        "party": p,
        "input": {"NumUnsigned": [job.inputs[c - 1][p], "U8"]},
        "output": if pol.out { json!(format!("http://out{p}.invalid/c{c}")) } else { Value::Null },
        "constants": constants,
    });
    serde_json::from_value(v).expect("policy json")
}

fn res_str<E>(r: &Result<(), HandleError<E>>) -> &'static str {
    match r {
        Ok(()) => "ok",
        Err(HandleError::StateMachineStopped) => "stopped",
        Err(HandleError::PolicyStateError(_)) => "err",
    }
}

pub struct ServerRun {
    pub lines: Vec<String>,
}

struct Driver {
    hub: Arc<Hub>,
    job: ServerJob,
    multi: bool,
    sems: Vec<Arc<Semaphore>>,
    joins: BTreeMap<(usize, usize), tokio::task::JoinHandle<()>>,
    lines: Vec<String>,
    called: BTreeMap<(usize, usize, String), bool>,
    budget: Faults,
    drift: usize,
    settle_timeouts: usize,
}

impl Driver {
    async fn settle(&mut self) {
        let t0 = Instant::now();
        let mut stable = 0;
        let need = if self.multi { 100 } else { 3 };
        loop {
            let a0 = self.hub.activity.load(Ordering::SeqCst);
            if self.multi {
                tokio::time::sleep(Duration::from_micros(500)).await;
            } else {
                for _ in 0..4 {
                    tokio::task::yield_now().await;
                }
            }
            let compiling = self.hub.compiling.load(Ordering::SeqCst) > 0;
            if self.hub.activity.load(Ordering::SeqCst) == a0 && !compiling {
                stable += 1;
            } else {
                stable = 0;
            }
            if compiling && !self.multi {
                tokio::time::sleep(Duration::from_micros(200)).await;
            }
            if stable >= need {
                return;
            }
            if t0.elapsed() > Duration::from_secs(60) {
                self.settle_timeouts += 1;
                return;
            }
        }
    }

    fn observe(&mut self, label: &str) {
        let parked = self.hub.parked_steps();
        let g = self.hub.inner.lock().expect("hub");
        let scen = &self.job.scen;
        let mut actors = vec![];
        for c in 1..=scen.pol.len() {
            for p in 0..scen.n {
                let kind = g.kinds.get(&(c, p)).cloned().unwrap_or_else(|| "Init".into());
                let api = |w: &str| -> Value {
                    json!(g.api.get(&(c, p, w.to_string())).cloned().unwrap_or_default())
                };
                let join = match self.joins.get(&(c, p)) {
                    Some(j) if j.is_finished() => "done",
                    Some(_) => "running",
                    None => "none",
                };
                actors.push(json!({
                    "c": c, "p": p, "kind": kind,
                    "sched": api("schedule"), "cancl": api("cancel"), "strays": api("stray"),
                    "outs": g.outs.get(&(c, p)).cloned().unwrap_or_default(),
                    "join": join,
                }));
            }
        }
        let sem: Vec<usize> = self.sems.iter().map(|s| s.available_permits()).collect();
        let msgs: Vec<u64> = (1..=scen.pol.len()).map(|c| g.msgs.get(&c).copied().unwrap_or(0)).collect();
        let rpcfail: Vec<Value> = g
            .rpc_failed
            .iter()
            .map(|(c, p, k, to)| json!({"c": c, "p": p, "k": k, "to": to}))
            .collect();
        drop(g);
        self.lines.push(
            json!({"ev": "obs", "at": label, "parked": parked, "actors": actors, "sem": sem, "msgs": msgs,
                   "rpcfail": rpcfail}).to_string(),
        );
    }

    fn record_api(hub: &Arc<Hub>, c: usize, p: usize, what: &str, res: &str) {
        hub.inner
            .lock()
            .expect("hub")
            .api
            .entry((c, p, what.to_string()))
            .or_default()
            .push(res.to_string());
        hub.bump();
    }

    /// Perform an API call in a task of its own (the call returns when the
    /// state machine answers).
    fn api_call(&mut self, st: &Step) {
        let what = st.what.clone().unwrap_or_default();
        let (c, p) = (st.c, st.p);
        let Some(h) = self.hub.handle(c, p) else { return };
        let hub = self.hub.clone();
        let n = self.job.scen.n;
        let policy = make_policy(&self.job, c, p);
        let cid = uuid::Uuid::from_u128(c as u128);
        self.called.insert((c, p, what.clone()), true);
        match what.as_str() {
            "schedule" => {
                Self::record_api(&hub, c, p, "schedule", "called");
                tokio::spawn(async move {
                    let r = h.schedule(policy).await;
                    Self::record_api(&hub, c, p, "schedule", res_str(&r));
                });
            }
            "cancel" => {
                Self::record_api(&hub, c, p, "cancel", "called");
                tokio::spawn(async move {
                    let r = h.cancel().await;
                    Self::record_api(&hub, c, p, "cancel", res_str(&r));
                });
            }
            stray => {
                let stray = stray.to_string();
                tokio::spawn(async move {
                    let r: String = match stray.as_str() {
                        "Schedule" => res_str(&h.schedule(policy).await).into(),
                        "Run" | "RunEarly" => res_str(&h.run(RunRequest { computation_id: cid }).await).into(),
                        // (non-empty constants: an empty set is ignored by the state machine anyway)
                        "Consts" | "ConstsBad" => {
                            let mut consts: polytune_server_core::Consts = Default::default();
                            consts.insert(
                                "C".into(),
                                serde_json::from_value(json!({"NumUnsigned": [9, "U8"]})).expect("literal"),
                            );
                            res_str(
                                &h.consts(ConstsRequest {
                                    // "ConstsBad": a sender index outside the participants
                                    from: if stray == "ConstsBad" { n + 3 } else { (p + 1) % n },
                                    computation_id: cid,
                                    consts,
                                })
                                .await,
                            )
                            .into()
                        }
                        "Validate" => res_str(&h.validate(ValidateRequest::from(&policy)).await).into(),
                        "MsgBad" => res_str(
                            &h.mpc_msg(MpcMsg {
                                from: n + 3,
                                data: vec![1, 2, 3],
                            })
                            .await,
                        )
                        .into(),
                        "MsgSelf" => res_str(
                            &h.mpc_msg(MpcMsg {
                                from: p,
                                data: vec![1, 2, 3],
                            })
                            .await,
                        )
                        .into(),
                        "MsgEarly" => res_str(
                            &h.mpc_msg(MpcMsg {
                                from: (p + 1) % n,
                                data: vec![1, 2, 3],
                            })
                            .await,
                        )
                        .into(),
                        _ => "unknown".into(),
                    };
                    Self::record_api(&hub, c, p, "stray", &format!("{stray}:{r}"));
                });
            }
        }
    }

    fn do_step(&mut self, st: &Step) -> bool {
        if st.g == "api" {
            self.api_call(st);
            true
        } else {
            let mode = if st.mode.as_deref() == Some("fail") {
                Mode::Fail
            } else {
                Mode::Deliver
            };
            self.hub.release(st, mode)
        }
    }

    /// The same rule as StrayAllowed in spec/ServerCore.tla.
    fn stray_allowed(&self, c: usize, p: usize, what: &str) -> bool {
        let (kind, busy) = {
            let g = self.hub.inner.lock().expect("hub");
            (
                g.kinds.get(&(c, p)).cloned().unwrap_or_else(|| "Init".into()),
                g.busy.get(&(c, p)).copied().unwrap_or(false),
            )
        };
        // the actor is idle with an empty queue: the stray command will be
        // handled in exactly the state observed now
        let quiet = !busy
            && !self
                .hub
                .parked_steps()
                .iter()
                .any(|s| s.g == "cmd" && s.c == c && s.p == p);
        let scheduled = self.called.contains_key(&(c, p, "schedule".into()));
        let not_yet = matches!(kind.as_str(), "Init" | "AwaitingValidation" | "ValidateRequested");
        match what {
            "MsgBad" | "ConstsBad" | "MsgSelf" => true,
            "Schedule" => scheduled,
            "MsgEarly" => !scheduled,
            "Run" | "Consts" => not_yet && quiet,
            // a run request reaching the leader inside its schedule step (ServerCore.tla, StrayAllowed)
            "RunEarly" => {
                let leader = self.job.scen.pol[c - 1][p].leader == p;
                let sched_called = self
                    .hub
                    .inner
                    .lock()
                    .expect("hub")
                    .api
                    .get(&(c, p, "schedule".to_string()))
                    .and_then(|v| v.last().cloned())
                    .is_some_and(|r| r == "called");
                leader && not_yet && busy && sched_called
            }
            "Validate" => (!not_yet || kind == "ValidateRequested") && kind != "Stopped" && quiet,
            _ => true,
        }
    }

    fn random_step(&mut self, rng: &mut ChaCha8Rng) -> Option<Step> {
        let scen = self.job.scen.clone();
        let mut cands: Vec<Step> = self.hub.parked_steps();
        let mut in_progress = !cands.is_empty();
        // API calls not yet made
        for c in 1..=scen.pol.len() {
            for p in 0..scen.n {
                if !self.called.contains_key(&(c, p, "schedule".into())) {
                    let mut s = step("api", c, p);
                    s.what = Some("schedule".into());
                    cands.push(s);
                    in_progress = true;
                }
            }
        }
        if !in_progress {
            return None;
        }
        // faults, each with a small probability per step while budget remains
        if self.budget.cancel > 0 && rng.random_range(0..8) == 0 {
            let c = rng.random_range(1..=scen.pol.len());
            let p = rng.random_range(0..scen.n);
            if !self.called.contains_key(&(c, p, "cancel".into())) {
                self.budget.cancel -= 1;
                let mut s = step("api", c, p);
                s.what = Some("cancel".into());
                return Some(s);
            }
        }
        if self.budget.stray > 0 && rng.random_range(0..8) == 0 {
            let c = rng.random_range(1..=scen.pol.len());
            let p = rng.random_range(0..scen.n);
            let kinds: Vec<&str> = ["MsgBad", "Schedule", "MsgEarly", "Run", "Consts", "Validate", "RunEarly", "ConstsBad", "MsgSelf"]
                .into_iter()
                .filter(|k| self.stray_allowed(c, p, k))
                .collect();
            self.budget.stray -= 1;
            let mut s = step("api", c, p);
            s.what = Some(kinds.choose(rng).expect("kinds").to_string());
            return Some(s);
        }
        // messages on the slow link go last
        if cands.iter().any(|x| x.g != "msg") {
            cands.retain(|x| x.g != "msg");
        }
        // schedule() calls of late parties only when nothing else can move
        let is_late = |x: &Step| x.g == "api" && x.what.as_deref() == Some("schedule") && scen.late.contains(&x.p);
        if cands.iter().any(|x| !is_late(x)) {
            cands.retain(|x| !is_late(x));
        }
        let mut s = cands.choose(rng).expect("nonempty").clone();
        if s.g == "rpc" && self.budget.rpcfail > 0 && rng.random_range(0..6) == 0 {
            self.budget.rpcfail -= 1;
            s.mode = Some("fail".into());
        } else if s.g == "rpc" {
            s.mode = Some("deliver".into());
        }
        Some(s)
    }
}

async fn drive(job: ServerJob, hub: Arc<Hub>, jobno: u64, multi: bool) -> Vec<String> {
    let scen = job.scen.clone();
    let sems: Vec<Arc<Semaphore>> = scen.conc.iter().map(|k| Arc::new(Semaphore::new(*k))).collect();
    let mut d = Driver {
        hub: hub.clone(),
        job: job.clone(),
        multi,
        sems,
        joins: Default::default(),
        lines: vec![],
        called: Default::default(),
        budget: scen.faults.clone(),
        drift: 0,
        settle_timeouts: 0,
    };
    d.lines.push(
        json!({"ev": "cfg", "run": job.id, "scen": scen, "inputs": job.inputs, "cvals": job.cvals,
               "runtime": if multi { "multi" } else { "current" }, "scripted": job.steps.is_some(),
               "tag": if job.tag.is_null() { json!("") } else { job.tag.clone() }})
        .to_string(),
    );
    for c in 1..=scen.pol.len() {
        for p in 0..scen.n {
            let (state, handle) = PolicyState::new(
                Builder {
                    hub: hub.clone(),
                    p,
                },
                d.sems[p].clone(),
            );
            let state = state.with_verif_tag(tag_of(jobno, c, p));
            hub.inner.lock().expect("hub").handles.insert((c, p), handle);
            d.joins.insert((c, p), tokio::spawn(state.start()));
        }
    }
    d.settle().await;
    d.observe("init");
    let mut rng = ChaCha8Rng::seed_from_u64(job.seed);
    let max_steps = if job.max_steps == 0 { 2000 } else { job.max_steps };
    let mut k = 0;
    let mut script = job.steps.clone();
    let mut cursor = 0;
    let mut fails = 0;
    loop {
        if k >= max_steps {
            break;
        }
        let next = match &mut script {
            Some(steps) if cursor < steps.len() => {
                cursor += 1;
                Some((steps[cursor - 1].clone(), true))
            }
            // after the script (or after drift) finish the run with random releases
            _ => d.random_step(&mut rng).map(|s| (s, false)),
        };
        let (st, scripted) = match next {
            Some(x) => x,
            None => {
                // nothing to release: on the multi-thread runtime make sure this is not just a task that has not been
                // given a CPU yet (loaded machine) before the run is declared over
                if !multi {
                    break;
                }
                tokio::time::sleep(Duration::from_millis(300)).await;
                d.settle().await;
                match d.random_step(&mut rng) {
                    Some(s) => (s, false),
                    None => break,
                }
            }
        };
        if st.g == "api"
            && !matches!(st.what.as_deref(), Some("schedule") | Some("cancel"))
            && !d.stray_allowed(st.c, st.p, st.what.as_deref().unwrap_or(""))
        {
            // a scripted stray command that the property does not cover here
            d.lines.push(json!({"ev": "skip", "step": st, "k": k}).to_string());
            continue;
        }
        if scripted {
            // scripted faults count against the scenario's fault budget as well
            match (st.g.as_str(), st.what.as_deref(), st.mode.as_deref()) {
                ("api", Some("cancel"), _) => d.budget.cancel = d.budget.cancel.saturating_sub(1),
                ("api", Some(w), _) if w != "schedule" => d.budget.stray = d.budget.stray.saturating_sub(1),
                ("rpc", _, Some("fail")) => d.budget.rpcfail = d.budget.rpcfail.saturating_sub(1),
                _ => {}
            }
        }
        if scripted && st.g != "api" {
            // the specification runs the MPC protocol as one internal step: messages parked on a slow link are
            // released (stuttering steps) until the gate the script names shows up
            loop {
                let parked = d.hub.parked_steps();
                if parked.iter().any(|x| same_gate(x, &st)) {
                    break;
                }
                let Some(m) = parked.iter().find(|x| x.g == "msg").cloned() else { break };
                if !d.do_step(&m) {
                    break;
                }
                k += 1;
                d.lines.push(json!({"ev": "step", "k": k, "step": m, "scripted": false}).to_string());
                d.settle().await;
                d.observe("step");
                if k >= max_steps {
                    break;
                }
            }
        }
        let done = d.do_step(&st);
        if !done {
            fails += 1;
            if fails > 200 {
                break;
            }
            if scripted {
                d.drift += 1;
                d.lines.push(json!({"ev": "drift", "step": st, "k": k}).to_string());
                // abandon the script
                script = Some(vec![]);
                cursor = 0;
            }
            continue;
        }
        k += 1;
        d.lines.push(json!({"ev": "step", "k": k, "step": st, "scripted": scripted}).to_string());
        d.settle().await;
        d.observe("step");
    }
    // final: join status incl. panics
    let mut joins = vec![];
    let keys: Vec<(usize, usize)> = d.joins.keys().copied().collect();
    for key in keys {
        let j = d.joins.remove(&key).expect("join");
        let st = if j.is_finished() {
            match j.await {
                Ok(()) => "done",
                Err(e) if e.is_panic() => "panic",
                Err(_) => "cancelled",
            }
        } else {
            j.abort();
            "running"
        };
        joins.push(json!({"c": key.0, "p": key.1, "join": st}));
    }
    d.lines.push(
        json!({"ev": "end", "run": job.id, "steps": k, "drift": d.drift, "settle_timeouts": d.settle_timeouts,
               "joins": joins})
        .to_string(),
    );
    d.lines
}

pub fn run_server(job: &ServerJob) -> ServerRun {
    install_hooks();
    let jobno = NEXT_JOB.fetch_add(1, Ordering::SeqCst);
    let hub = Arc::new(Hub {
        inner: Mutex::new(HubInner::default()),
        activity: AtomicU64::new(0),
        compiling: AtomicI64::new(0),
        slow: job.scen.slow.clone(),
    });
    HUBS.lock().expect("hubs").insert(jobno, hub.clone());
    let multi = job.runtime == "multi";
    let rt = if multi {
        tokio::runtime::Builder::new_multi_thread()
            .worker_threads(3)
            .enable_time()
            .build()
            .expect("rt")
    } else {
        tokio::runtime::Builder::new_current_thread()
            .enable_time()
            .build()
            .expect("rt")
    };
    let lines = rt.block_on(drive(job.clone(), hub.clone(), jobno, multi));
    rt.shutdown_background();
    HUBS.lock().expect("hubs").remove(&jobno);
    ServerRun { lines }
}

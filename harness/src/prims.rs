//! C20: records inputs and outputs of the primitive building blocks (both
//! code paths) for TLC to check against their definitions (spec/Prims.tla).
//! AES itself is trusted: the permutation pi is supplied as a table computed
//! with the `aes` crate directly.

use aes::{
    Aes128,
    cipher::{BlockCipherEncrypt, KeyInit},
};
use rand::{RngCore, SeedableRng};
use rand_chacha::ChaCha8Rng;
use serde::{Deserialize, Serialize};
use serde_json::{Value, json};

use crate::adv::limbs;

#[derive(Deserialize, Serialize, Clone, Debug)]
#[serde(tag = "kind")]
pub enum PrimJob {
    /// rows x cols bit matrix (rows multiple of 128, cols multiple of 8, >= 16), `offset`
    /// unaligned start inside the buffers; positions: sampled bit positions to report (all if empty and small)
    Transpose { id: String, rows: usize, cols: usize, seed: u64, offset: usize, sample: usize },
    /// operands as 8 limbs of 16 bits (LSB first)
    Clmul { id: String, a: Vec<u32>, b: Vec<u32> },
    Hash { id: String, seed: u64 },
    /// fill_bytes calls of the given lengths on one generator
    Rng { id: String, seed: u64, lens: Vec<usize> },
}

fn from_limbs(l: &[u32]) -> u128 {
    l.iter().enumerate().fold(0u128, |a, (i, x)| a | ((*x as u128) << (16 * i)))
}

fn pi(key: [u8; 16], x: [u8; 16]) -> [u8; 16] {
    let aes = Aes128::new(&key.into());
    let mut b = x.into();
    aes.encrypt_block(&mut b);
    b.into()
}

/// the fixed key of FIXED_KEY_HASH as documented in aes_hash.rs
const FIXED_KEY: u128 = 193502124791825095790518994062991136444;

fn bytes_le_limbs(b: &[u8; 16]) -> Vec<u32> {
    limbs(u128::from_le_bytes(*b))
}

pub fn run_prim(job: &PrimJob) -> String {
    match job {
        PrimJob::Transpose { id, rows, cols, seed, offset, sample } => {
            let nbytes = rows * cols / 8;
            let mut rng = ChaCha8Rng::seed_from_u64(*seed);
            let mut inbuf = vec![0u8; nbytes + offset];
            rng.fill_bytes(&mut inbuf);
            let input = &inbuf[*offset..];
            let mut o1 = vec![0u8; nbytes + offset];
            let mut o2 = vec![0u8; nbytes + offset];
            let r1 = std::panic::catch_unwind(std::panic::AssertUnwindSafe(|| {
                polytune::verif::transpose_dispatch(input, &mut o1[*offset..], *rows)
            }));
            let r2 = std::panic::catch_unwind(std::panic::AssertUnwindSafe(|| {
                polytune::verif::transpose_portable(input, &mut o2[*offset..], *rows)
            }));
            let (o1, o2) = (&o1[*offset..], &o2[*offset..]);
            // bit (i, j) of the input / bit (j, i) of the outputs, LSB first inside a byte
            let inbit = |i: usize, j: usize| (input[i * cols / 8 + j / 8] >> (j % 8)) & 1;
            let outbit = |o: &[u8], j: usize, i: usize| (o[j * rows / 8 + i / 8] >> (i % 8)) & 1;
            let mut pos: Vec<(usize, usize)> = vec![];
            if *sample == 0 {
                for i in 0..*rows {
                    for j in 0..*cols {
                        pos.push((i, j));
                    }
                }
            } else {
                // full first/last rows and columns plus a seeded sample
                for j in 0..*cols {
                    pos.push((0, j));
                    pos.push((rows - 1, j));
                }
                for i in 0..*rows {
                    pos.push((i, 0));
                    pos.push((i, cols - 1));
                }
                for _ in 0..*sample {
                    pos.push((rng.next_u32() as usize % rows, rng.next_u32() as usize % cols));
                }
            }
            // rows of the input and of both outputs as byte vectors would be large: report the
            // sampled bits as triples (i, j, in, out_dispatch, out_portable) packed into integers
            let bits: Vec<u32> = pos
                .iter()
                .map(|&(i, j)| {
                    ((i as u32) << 15)
                        | ((j as u32) << 3)
                        | ((inbit(i, j) as u32) << 2)
                        | ((outbit(o1, j, i) as u32) << 1)
                        | outbit(o2, j, i) as u32
                })
                .collect();
            // population counts catch anything outside the sample
            let pc = |b: &[u8]| b.iter().map(|x| x.count_ones() as u64).sum::<u64>();
            json!({"ev": "transpose", "run": id, "rows": rows, "cols": cols, "offset": offset, "bits": bits,
                   "same": o1 == o2, "pc_in": pc(input), "pc_d": pc(o1), "pc_p": pc(o2),
                   "panic": r1.is_err() || r2.is_err(), "all": *sample == 0})
            .to_string()
        }
        PrimJob::Clmul { id, a, b } => {
            let (a, b) = (from_limbs(a), from_limbs(b));
            let (l1, h1) = polytune::verif::clmul_dispatch(a, b);
            let (l2, h2) = polytune::verif::clmul_scalar(a, b);
            json!({"ev": "clmul", "run": id, "a": limbs(a), "b": limbs(b), "lo_d": limbs(l1), "hi_d": limbs(h1),
                   "lo_s": limbs(l2), "hi_s": limbs(h2)})
            .to_string()
        }
        PrimJob::Hash { id, seed } => {
            let mut rng = ChaCha8Rng::seed_from_u64(*seed);
            let mut x = [0u8; 16];
            let mut t = [0u8; 16];
            rng.fill_bytes(&mut x);
            rng.fill_bytes(&mut t);
            if *seed % 7 == 0 {
                t = [0; 16];
            }
            let key = FIXED_KEY.to_le_bytes();
            let pix = pi(key, x);
            let mut pxt = pix;
            for k in 0..16 {
                pxt[k] ^= t[k];
            }
            let pipxt = pi(key, pxt);
            let cr = polytune::verif::cr_hash(x);
            let tccr = polytune::verif::tccr_hash(t, x);
            json!({"ev": "hash", "run": id, "x": bytes_le_limbs(&x), "t": bytes_le_limbs(&t),
                   "pi_x": bytes_le_limbs(&pix), "pi_pix_t": bytes_le_limbs(&pipxt),
                   "cr": bytes_le_limbs(&cr), "tccr": bytes_le_limbs(&tccr)})
            .to_string()
        }
        PrimJob::Rng { id, seed, lens } => {
            let mut rng = ChaCha8Rng::seed_from_u64(*seed);
            let mut s = [0u8; 16];
            rng.fill_bytes(&mut s);
            let outs = polytune::verif::aes_rng_fill(s, lens);
            let total: usize = lens.iter().sum();
            // reference keystream: pi_seed(le128(0)) || pi_seed(le128(1)) || ...
            let nblocks = total.div_ceil(16) + 1;
            let mut ks: Vec<u32> = vec![];
            for c in 0..nblocks as u128 {
                ks.extend(pi(s, c.to_le_bytes()).iter().map(|b| *b as u32));
            }
            let outs: Vec<Value> = outs.iter().map(|o| json!(o.iter().map(|b| *b as u32).collect::<Vec<_>>())).collect();
            json!({"ev": "rng", "run": id, "lens": lens, "outs": outs, "keystream": ks}).to_string()
        }
    }
}

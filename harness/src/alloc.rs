//! Counting allocator with per-thread counters (each engine run is confined
//! to one thread, so per-thread peak = per-run peak).

use std::{
    alloc::{GlobalAlloc, Layout, System},
    cell::Cell,
};

thread_local! {
    static CUR: Cell<isize> = const { Cell::new(0) };
    static PEAK: Cell<isize> = const { Cell::new(0) };
}

pub struct Counting;

unsafe impl GlobalAlloc for Counting {
    unsafe fn alloc(&self, l: Layout) -> *mut u8 {
        let _ = CUR.try_with(|c| {
            let v = c.get() + l.size() as isize;
            c.set(v);
            let _ = PEAK.try_with(|p| {
                if v > p.get() {
                    p.set(v)
                }
            });
        });
        unsafe { System.alloc(l) }
    }
    unsafe fn dealloc(&self, ptr: *mut u8, l: Layout) {
        let _ = CUR.try_with(|c| c.set(c.get() - l.size() as isize));
        unsafe { System.dealloc(ptr, l) }
    }
    unsafe fn realloc(&self, ptr: *mut u8, l: Layout, new: usize) -> *mut u8 {
        let _ = CUR.try_with(|c| {
            let v = c.get() + new as isize - l.size() as isize;
            c.set(v);
            let _ = PEAK.try_with(|p| {
                if v > p.get() {
                    p.set(v)
                }
            });
        });
        unsafe { System.realloc(ptr, l, new) }
    }
}

/// Start a measurement: peak := current.
pub fn reset_peak() {
    let cur = CUR.with(|c| c.get());
    PEAK.with(|p| p.set(cur));
    BASE.with(|b| b.set(cur));
}

thread_local! {
    static BASE: Cell<isize> = const { Cell::new(0) };
}

/// Peak bytes allocated above the level at the last `reset_peak`.
pub fn peak() -> usize {
    let b = BASE.with(|b| b.get());
    let p = PEAK.with(|p| p.get());
    (p - b).max(0) as usize
}

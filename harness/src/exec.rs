//! Deterministic single-thread executor and scheduler-controlled FIFO network.
//!
//! Every `send`/`recv` on a [`SchedChannel`] registers an *operation* and
//! completes only when the scheduler grants it, so a schedule is a sequence of
//! `(party, dir, peer)` completions -- exactly the `DoSend` / `DoRecv` actions
//! of `spec/Sched.tla`. All parties live in one thread, hence the event log is
//! a true total order.

use std::{
    cell::RefCell,
    collections::VecDeque,
    future::Future,
    panic::{AssertUnwindSafe, catch_unwind},
    pin::Pin,
    rc::Rc,
    sync::Arc,
    task::{Context, Poll, Wake, Waker},
};

use polytune::channel::Channel;
use rand::{Rng, SeedableRng};
use rand_chacha::ChaCha8Rng;
use serde::{Deserialize, Serialize};

#[derive(Clone, Copy, PartialEq, Eq, Debug, Serialize, Deserialize, PartialOrd, Ord)]
pub enum Dir {
    S,
    R,
}

#[derive(Debug, Clone)]
pub struct ChanErr(pub String);

impl std::fmt::Display for ChanErr {
    fn fmt(&self, f: &mut std::fmt::Formatter<'_>) -> std::fmt::Result {
        write!(f, "{}", self.0)
    }
}

pub struct Op {
    pub id: usize,
    pub party: usize,
    pub dir: Dir,
    pub peer: usize,
    pub phase: String,
    pub len: usize,
    data: Option<Vec<u8>>,
    done: Option<Result<(), ChanErr>>,
    waker: Option<Waker>,
}

#[derive(Serialize, Clone, Debug)]
pub struct Ev {
    pub seq: usize,
    /// "s" = operation posted, "e" = operation completed
    pub ev: &'static str,
    pub p: usize,
    pub d: Dir,
    pub q: usize,
    pub ph: String,
    /// byte length; -1 if unknown (start of a receive) or failed
    pub len: i64,
    pub ok: bool,
    /// for completed sends of Vec<Option<_>> messages: the `Some` positions
    #[serde(skip_serializing_if = "Option::is_none")]
    pub some: Option<Vec<usize>>,
}

/// A message as it crossed the wire (after tampering), with the original.
#[derive(Clone, Debug)]
pub struct MsgRec {
    pub seq: usize,
    pub from: usize,
    pub to: usize,
    pub phase: String,
    /// index among the messages of this ordered pair
    pub k_pair: usize,
    /// index among all messages of the sender
    pub k_sender: usize,
    pub orig: Vec<u8>,
    pub sent: Vec<u8>,
}

pub enum SendAction {
    Deliver(Vec<u8>),
    /// the sender vanishes instead of sending this message
    Crash,
}

pub struct SendCtx<'a> {
    pub from: usize,
    pub to: usize,
    pub phase: &'a str,
    pub k_pair: usize,
    pub k_sender: usize,
    /// index among the messages from->to with this phase label
    pub k_phase: usize,
}

pub type Tamper = Box<dyn FnMut(&SendCtx, Vec<u8>) -> SendAction>;

pub struct Net {
    pub n: usize,
    /// 0 = unbounded
    pub cap: usize,
    queues: Vec<Vec<VecDeque<Vec<u8>>>>,
    pub ops: Vec<Op>,
    pending: Vec<usize>,
    pub closed: Vec<bool>,
    pub log: Vec<Ev>,
    pub record_events: bool,
    pub record_content: bool,
    pub msgs: Vec<MsgRec>,
    pub tamper: Option<Tamper>,
    pair_count: Vec<Vec<usize>>,
    sender_count: Vec<usize>,
    phase_count: std::collections::HashMap<(usize, usize, String), usize>,
    pub max_outstanding: usize,
    /// largest number of messages ever waiting on one directed link (sent, not yet received by the peer's engine)
    pub max_occ: usize,
    /// receives answered with "closed" since the party last completed any other operation: a party that keeps
    /// retrying a receive on a terminated peer never returns (reported as Hang)
    closed_recv: Vec<usize>,
    pub livelock: Option<usize>,
    pub crash_request: Option<usize>,
    pub bytes_recv: Vec<usize>,
    seq: usize,
}

impl Net {
    pub fn new(n: usize, cap: usize) -> Self {
        Net {
            n,
            cap,
            queues: (0..n).map(|_| (0..n).map(|_| VecDeque::new()).collect()).collect(),
            ops: vec![],
            pending: vec![],
            closed: vec![false; n],
            log: vec![],
            record_events: true,
            record_content: false,
            msgs: vec![],
            tamper: None,
            pair_count: vec![vec![0; n]; n],
            sender_count: vec![0; n],
            phase_count: Default::default(),
            max_outstanding: 0,
            max_occ: 0,
            closed_recv: vec![0; n],
            livelock: None,
            crash_request: None,
            bytes_recv: vec![0; n],
            seq: 0,
        }
    }

    fn push_ev(&mut self, ev: &'static str, op: usize, len: i64, ok: bool) {
        self.seq += 1;
        if !self.record_events {
            return;
        }
        let o = &self.ops[op];
        self.log.push(Ev {
            seq: self.seq,
            ev,
            p: o.party,
            d: o.dir,
            q: o.peer,
            ph: o.phase.clone(),
            len,
            ok,
            some: None,
        });
    }

    fn register(&mut self, party: usize, dir: Dir, peer: usize, phase: &str, data: Option<Vec<u8>>) -> usize {
        let id = self.ops.len();
        let len = data.as_ref().map(|d| d.len()).unwrap_or(0);
        self.ops.push(Op {
            id,
            party,
            dir,
            peer,
            phase: phase.to_string(),
            len,
            data,
            done: None,
            waker: None,
        });
        self.pending.push(id);
        let outstanding = self
            .pending
            .iter()
            .filter(|&&o| {
                let o = &self.ops[o];
                o.party == party && o.dir == dir && o.peer == peer
            })
            .count();
        self.max_outstanding = self.max_outstanding.max(outstanding);
        let l = if dir == Dir::S { len as i64 } else { -1 };
        self.push_ev("s", id, l, true);
        id
    }

    fn valid_peer(&self, party: usize, peer: usize) -> bool {
        peer < self.n && peer != party
    }

    /// Operations the scheduler may complete now.
    pub fn enabled(&self) -> Vec<usize> {
        self.pending
            .iter()
            .copied()
            .filter(|&id| {
                let o = &self.ops[id];
                if !self.valid_peer(o.party, o.peer) {
                    return true; // completes with an error
                }
                match o.dir {
                    Dir::S => {
                        self.closed[o.peer]
                            || self.cap == 0
                            || self.queues[o.party][o.peer].len() < self.cap
                    }
                    Dir::R => !self.queues[o.peer][o.party].is_empty() || self.closed[o.peer],
                }
            })
            .collect()
    }

    pub fn has_pending(&self) -> bool {
        !self.pending.is_empty()
    }

    /// Complete operation `id` (must be enabled).
    pub fn grant(&mut self, id: usize) {
        self.pending.retain(|&o| o != id);
        let (party, dir, peer) = {
            let o = &self.ops[id];
            (o.party, o.dir, o.peer)
        };
        let res: Result<(), ChanErr>;
        let mut len: i64 = -1;
        let mut some: Option<Vec<usize>> = None;
        if !self.valid_peer(party, peer) {
            res = Err(ChanErr(format!("no such peer {peer}")));
        } else {
            match dir {
                Dir::S => {
                    if self.closed[peer] {
                        res = Err(ChanErr("peer closed".into()));
                    } else {
                        let data = self.ops[id].data.take().expect("send payload");
                        let phase = self.ops[id].phase.clone();
                        let k_pair = self.pair_count[party][peer];
                        let k_sender = self.sender_count[party];
                        let pk = self
                            .phase_count
                            .entry((party, peer, phase.clone()))
                            .or_insert(0);
                        let k_phase = *pk;
                        *pk += 1;
                        let ctx = SendCtx {
                            from: party,
                            to: peer,
                            phase: &phase,
                            k_pair,
                            k_sender,
                            k_phase,
                        };
                        let orig = if self.record_content { Some(data.clone()) } else { None };
                        let action = match self.tamper.as_mut() {
                            Some(t) => t(&ctx, data),
                            None => SendAction::Deliver(data),
                        };
                        match action {
                            SendAction::Deliver(sent) => {
                                self.pair_count[party][peer] += 1;
                                self.sender_count[party] += 1;
                                len = sent.len() as i64;
                                if let Some(orig) = orig {
                                    self.msgs.push(MsgRec {
                                        seq: self.seq + 1,
                                        from: party,
                                        to: peer,
                                        phase,
                                        k_pair,
                                        k_sender,
                                        orig,
                                        sent: sent.clone(),
                                    });
                                }
                                some = crate::adv::some_positions(&self.ops[id].phase, &sent);
                                self.queues[party][peer].push_back(sent);
                                self.max_occ = self.max_occ.max(self.queues[party][peer].len());
                                self.closed_recv[party] = 0;
                                res = Ok(());
                            }
                            SendAction::Crash => {
                                self.crash_request = Some(party);
                                res = Err(ChanErr("crashed".into()));
                            }
                        }
                    }
                }
                Dir::R => {
                    if let Some(data) = self.queues[peer][party].pop_front() {
                        len = data.len() as i64;
                        self.bytes_recv[party] += data.len();
                        self.ops[id].data = Some(data);
                        self.closed_recv[party] = 0;
                        res = Ok(());
                    } else {
                        res = Err(ChanErr("closed".into()));
                        self.closed_recv[party] += 1;
                        if self.closed_recv[party] > 20_000 {
                            self.livelock = Some(party);
                        }
                    }
                }
            }
        }
        let ok = res.is_ok();
        self.ops[id].done = Some(res);
        self.push_ev("e", id, len, ok);
        if some.is_some() && self.record_events {
            if let Some(last) = self.log.last_mut() {
                last.some = some;
            }
        }
        if let Some(w) = self.ops[id].waker.take() {
            w.wake();
        }
    }

    /// Mark a party as terminated: its endpoints are closed and its pending
    /// operations are discarded.
    pub fn close(&mut self, party: usize) {
        self.closed[party] = true;
        let ops = &self.ops;
        self.pending.retain(|&o| ops[o].party != party);
    }
}

struct OpFuture {
    net: Rc<RefCell<Net>>,
    id: usize,
}

impl Future for OpFuture {
    type Output = Result<Option<Vec<u8>>, ChanErr>;
    fn poll(self: Pin<&mut Self>, cx: &mut Context<'_>) -> Poll<Self::Output> {
        let mut net = self.net.borrow_mut();
        let op = &mut net.ops[self.id];
        match op.done.take() {
            Some(Ok(())) => Poll::Ready(Ok(op.data.take())),
            Some(Err(e)) => Poll::Ready(Err(e)),
            None => {
                op.waker = Some(cx.waker().clone());
                Poll::Pending
            }
        }
    }
}

#[derive(Clone)]
pub struct SchedChannel {
    pub party: usize,
    pub net: Rc<RefCell<Net>>,
}

impl Channel for SchedChannel {
    type SendError = ChanErr;
    type RecvError = ChanErr;

    async fn send_bytes_to(&self, party: usize, data: Vec<u8>, phase: &str) -> Result<(), ChanErr> {
        let id = self
            .net
            .borrow_mut()
            .register(self.party, Dir::S, party, phase, Some(data));
        OpFuture {
            net: self.net.clone(),
            id,
        }
        .await
        .map(|_| ())
    }

    async fn recv_bytes_from(&self, party: usize, phase: &str) -> Result<Vec<u8>, ChanErr> {
        let id = self
            .net
            .borrow_mut()
            .register(self.party, Dir::R, party, phase, None);
        OpFuture {
            net: self.net.clone(),
            id,
        }
        .await
        .map(|d| d.unwrap_or_default())
    }
}

// ---------------------------------------------------------------------------

#[derive(Clone, Debug, Serialize, Deserialize)]
#[serde(tag = "kind")]
pub enum Policy {
    /// uniformly random among enabled operations
    Random { seed: u64 },
    /// always the most recently posted enabled operation
    Newest,
    /// always the oldest posted enabled operation
    Oldest,
    /// round-robin over parties
    RoundRobin,
    /// never run party `victim` unless nothing else is enabled
    Starve { victim: usize, seed: u64 },
    /// prefer receives (drain queues) / prefer sends (fill queues)
    PreferRecv { seed: u64 },
    PreferSend { seed: u64 },
    /// follow a TLC-produced schedule; steps that are not enabled fall back
    /// to a seeded random choice and are counted as drift
    Script { steps: Vec<(usize, Dir, usize)>, seed: u64 },
}

pub struct Scheduler {
    policy: Policy,
    rng: ChaCha8Rng,
    cursor: usize,
    rr: usize,
    pub drift: usize,
    pub steps: usize,
    /// the schedule actually taken
    pub taken: Vec<(usize, Dir, usize)>,
    pub record_taken: bool,
}

impl Scheduler {
    pub fn new(policy: Policy) -> Self {
        let seed = match &policy {
            Policy::Random { seed }
            | Policy::Starve { seed, .. }
            | Policy::PreferRecv { seed }
            | Policy::PreferSend { seed }
            | Policy::Script { seed, .. } => *seed,
            _ => 0,
        };
        Scheduler {
            policy,
            rng: ChaCha8Rng::seed_from_u64(seed),
            cursor: 0,
            rr: 0,
            drift: 0,
            steps: 0,
            taken: vec![],
            record_taken: false,
        }
    }

    fn pick(&mut self, net: &Net, enabled: &[usize]) -> usize {
        let rnd = |rng: &mut ChaCha8Rng, v: &[usize]| v[rng.random_range(0..v.len())];
        match &self.policy {
            Policy::Random { .. } => rnd(&mut self.rng, enabled),
            Policy::Newest => *enabled.iter().max().expect("nonempty"),
            Policy::Oldest => *enabled.iter().min().expect("nonempty"),
            Policy::RoundRobin => {
                for d in 0..net.n {
                    let p = (self.rr + d) % net.n;
                    if let Some(&id) = enabled.iter().find(|&&id| net.ops[id].party == p) {
                        self.rr = (p + 1) % net.n;
                        return id;
                    }
                }
                enabled[0]
            }
            Policy::Starve { victim, .. } => {
                let others: Vec<usize> = enabled
                    .iter()
                    .copied()
                    .filter(|&id| net.ops[id].party != *victim)
                    .collect();
                if others.is_empty() {
                    rnd(&mut self.rng, enabled)
                } else {
                    rnd(&mut self.rng, &others)
                }
            }
            Policy::PreferRecv { .. } | Policy::PreferSend { .. } => {
                let want = if matches!(self.policy, Policy::PreferRecv { .. }) {
                    Dir::R
                } else {
                    Dir::S
                };
                let pref: Vec<usize> = enabled
                    .iter()
                    .copied()
                    .filter(|&id| net.ops[id].dir == want)
                    .collect();
                if pref.is_empty() {
                    rnd(&mut self.rng, enabled)
                } else {
                    rnd(&mut self.rng, &pref)
                }
            }
            Policy::Script { steps, .. } => {
                while self.cursor < steps.len() {
                    let (p, d, q) = steps[self.cursor];
                    self.cursor += 1;
                    if let Some(&id) = enabled.iter().find(|&&id| {
                        let o = &net.ops[id];
                        o.party == p && o.dir == d && o.peer == q
                    }) {
                        return id;
                    }
                    self.drift += 1;
                }
                rnd(&mut self.rng, enabled)
            }
        }
    }
}

#[derive(Debug, Clone)]
pub enum Outcome<T> {
    Done(T),
    Panic(String),
    /// no operation can complete any more and the party has not returned
    Hang,
    /// the party was made to vanish by the scenario
    Crashed,
}

struct FlagWaker(std::sync::atomic::AtomicBool);
impl Wake for FlagWaker {
    fn wake(self: Arc<Self>) {
        self.0.store(true, std::sync::atomic::Ordering::SeqCst);
    }
    fn wake_by_ref(self: &Arc<Self>) {
        self.0.store(true, std::sync::atomic::Ordering::SeqCst);
    }
}

thread_local! {
    static LAST_PANIC: RefCell<String> = const { RefCell::new(String::new()) };
}

pub fn install_quiet_panic_hook() {
    let loud = std::env::var("PT_LOUD").is_ok();
    std::panic::set_hook(Box::new(move |info| {
        let msg = format!("{info}");
        if loud {
            eprintln!("{msg}");
        }
        LAST_PANIC.with(|p| *p.borrow_mut() = msg);
    }));
}

pub type PartyFut<'a, T> = Pin<Box<dyn Future<Output = T> + 'a>>;

/// Drive `futs` to completion under `sched`. `max_steps` bounds the number of
/// granted operations (exceeding it is reported as `Hang`).
pub fn run<'a, T>(
    net: &Rc<RefCell<Net>>,
    futs: Vec<PartyFut<'a, T>>,
    sched: &mut Scheduler,
    max_steps: usize,
) -> Vec<Outcome<T>> {
    let n = futs.len();
    let mut futs: Vec<Option<PartyFut<'a, T>>> = futs.into_iter().map(Some).collect();
    let mut out: Vec<Option<Outcome<T>>> = (0..n).map(|_| None).collect();
    let flags: Vec<Arc<FlagWaker>> = (0..n)
        .map(|_| Arc::new(FlagWaker(std::sync::atomic::AtomicBool::new(true))))
        .collect();
    loop {
        // poll every party whose waker fired
        let mut progressed = true;
        while progressed {
            progressed = false;
            for p in 0..n {
                if futs[p].is_none() {
                    continue;
                }
                if !flags[p].0.swap(false, std::sync::atomic::Ordering::SeqCst) {
                    continue;
                }
                progressed = true;
                let waker = Waker::from(flags[p].clone());
                let mut cx = Context::from_waker(&waker);
                let fut = futs[p].as_mut().expect("present");
                let r = catch_unwind(AssertUnwindSafe(|| fut.as_mut().poll(&mut cx)));
                match r {
                    Ok(Poll::Pending) => {}
                    Ok(Poll::Ready(v)) => {
                        out[p] = Some(Outcome::Done(v));
                        futs[p] = None;
                        net.borrow_mut().close(p);
                    }
                    Err(_) => {
                        let msg = LAST_PANIC.with(|m| m.borrow().clone());
                        out[p] = Some(Outcome::Panic(msg));
                        // the future is in an unspecified state: leak it
                        std::mem::forget(futs[p].take());
                        net.borrow_mut().close(p);
                    }
                }
            }
        }
        if futs.iter().all(|f| f.is_none()) {
            break;
        }
        let enabled = net.borrow().enabled();
        let livelock = net.borrow().livelock.is_some();
        if enabled.is_empty() || sched.steps >= max_steps || livelock {
            for p in 0..n {
                if futs[p].is_some() {
                    out[p] = Some(Outcome::Hang);
                    let f = futs[p].take();
                    let _ = catch_unwind(AssertUnwindSafe(|| drop(f)));
                }
            }
            break;
        }
        let id = {
            let netb = net.borrow();
            sched.pick(&netb, &enabled)
        };
        sched.steps += 1;
        if sched.record_taken {
            let netb = net.borrow();
            let o = &netb.ops[id];
            sched.taken.push((o.party, o.dir, o.peer));
        }
        net.borrow_mut().grant(id);
        // a crash requested by the tamper closure: the party vanishes now
        let crash = net.borrow_mut().crash_request.take();
        if let Some(c) = crash {
            if futs[c].is_some() {
                out[c] = Some(Outcome::Crashed);
                let f = futs[c].take();
                let _ = catch_unwind(AssertUnwindSafe(|| drop(f)));
                net.borrow_mut().close(c);
            }
        }
    }
    out.into_iter().map(|o| o.expect("set")).collect()
}

//! Runs the real `polytune::mpc` for all parties of one job under the
//! deterministic executor and writes TLC-ready ndjson.

use std::{cell::RefCell, path::PathBuf, rc::Rc};

use serde::{Deserialize, Serialize};
use serde_json::{Value, json};

use crate::{
    adv::{Dev, make_tamper},
    alloc,
    circ::JCircuit,
    exec::{Net, Outcome, PartyFut, Policy, SchedChannel, Scheduler, run},
};

fn default_cap() -> usize {
    1
}
fn default_policy() -> Policy {
    Policy::Random { seed: 0 }
}
fn default_true() -> bool {
    true
}

/// Per-party overrides of the arguments given to `mpc` (used by C18).
#[derive(Deserialize, Serialize, Clone, Debug, Default)]
pub struct ArgOverride {
    pub party: usize,
    pub p_own: Option<usize>,
    pub p_eval: Option<usize>,
    pub p_out: Option<Vec<usize>>,
    pub inputs: Option<Vec<bool>>,
    pub circuit: Option<JCircuit>,
}

#[derive(Deserialize, Serialize, Clone, Debug)]
pub struct EngineJob {
    pub id: String,
    pub circuit: JCircuit,
    pub inputs: Vec<Vec<bool>>,
    pub p_eval: usize,
    pub p_out: Vec<usize>,
    #[serde(default)]
    pub tmp: Vec<bool>,
    #[serde(default = "default_cap")]
    pub cap: usize,
    #[serde(default = "default_policy")]
    pub policy: Policy,
    #[serde(default = "default_true")]
    pub events: bool,
    #[serde(default)]
    pub content: bool,
    #[serde(default)]
    pub devs: Vec<Dev>,
    #[serde(default)]
    pub overrides: Vec<ArgOverride>,
    #[serde(default)]
    pub record_schedule: bool,
    /// taps: the named internal bit of `party` at `idx` is flipped
    #[serde(default)]
    pub taps: Vec<TapSpec>,
    /// record probe events (delta, bucket permutation, first KOS coefficient)
    #[serde(default)]
    pub probes: bool,
    /// emit the decoded content of the messages of these phases
    #[serde(default)]
    pub content_phases: Vec<String>,
    /// emit every decoded 128-bit field of the whole transcript and scan the raw
    /// bytes for each party's delta (needs `probes`)
    #[serde(default)]
    pub fields: bool,
    /// C04(c): recompute the public coins from the coin-toss openings seen on the wire
    #[serde(default)]
    pub predict: bool,
    /// scan the raw bytes sent by party h for this bit pattern (C06 canary): (party, bits)
    #[serde(default)]
    pub canary: Option<(usize, Vec<bool>)>,
    /// free-form tag copied to the output (scenario description)
    #[serde(default)]
    pub tag: Value,
}

#[derive(Deserialize, Serialize, Clone, Debug)]
pub struct TapSpec {
    pub party: usize,
    pub name: String,
    pub idx: usize,
}

#[derive(Serialize, Clone, Debug)]
pub struct ProbeEv {
    pub name: String,
    pub p: usize,
    /// each value as eight 16-bit limbs, least significant first
    pub vals: Vec<Vec<u32>>,
    /// number of channel operations completed when the probe fired
    pub seq: usize,
}

#[derive(Serialize, Clone, Debug)]
pub struct PartyResult {
    pub p: usize,
    /// ok | err | panic | hang | crashed
    pub kind: String,
    pub out: Vec<bool>,
    /// stable error class, e.g. `MpcError.InvalidOutputMac`
    pub err: String,
    pub detail: String,
}

pub struct EngineRun {
    pub results: Vec<PartyResult>,
    pub net: Rc<RefCell<Net>>,
    pub steps: usize,
    pub drift: usize,
    pub schedule: Vec<(usize, crate::exec::Dir, usize)>,
    pub tmp_left: usize,
    pub peak_alloc: usize,
    pub applied: Vec<bool>,
    pub probes: Vec<ProbeEv>,
    pub taps_hit: usize,
}

/// `MpcError(InvalidOutputMac(Reg(3)))` -> `MpcError.InvalidOutputMac`
pub fn err_class(dbg: &str) -> String {
    let ident = |s: &str| -> (String, usize) {
        let end = s
            .find(|c: char| !(c.is_alphanumeric() || c == '_'))
            .unwrap_or(s.len());
        (s[..end].to_string(), end)
    };
    let (a, e) = ident(dbg);
    let rest = &dbg[e..];
    if let Some(r) = rest.strip_prefix('(') {
        let (b, _) = ident(r);
        if !b.is_empty() && b.chars().next().is_some_and(|c| c.is_alphabetic()) {
            // one more level for channel errors: ChannelError(Error { phase, reason: RecvError(..) })
            if b == "Error" {
                if let Some(pos) = r.find("reason: ") {
                    let (c, _) = ident(&r[pos + 8..]);
                    return format!("{a}.{c}");
                }
            }
            if b == "ChannelErr" {
                if let Some(pos) = r.find("reason: ") {
                    let (c, _) = ident(&r[pos + 8..]);
                    return format!("{a}.ChannelErr.{c}");
                }
            }
            return format!("{a}.{b}");
        }
    }
    a
}

pub fn run_engine(job: &EngineJob, work: &std::path::Path) -> EngineRun {
    let n = job.circuit.n();
    let net = Rc::new(RefCell::new(Net::new(n, job.cap)));
    {
        let mut nb = net.borrow_mut();
        nb.record_events = job.events;
        nb.record_content = job.content || !job.content_phases.is_empty() || job.fields || job.canary.is_some() || job.predict;
    }
    let applied = Rc::new(RefCell::new(vec![false; job.devs.len()]));
    if !job.devs.is_empty() {
        net.borrow_mut().tamper = Some(make_tamper(job.devs.clone(), applied.clone()));
    }
    let base = job.circuit.to_circuit();
    // per-party arguments
    struct Args {
        circ: polytune::garble_lang::register_circuit::Circuit,
        inputs: Vec<bool>,
        p_eval: usize,
        p_own: usize,
        p_out: Vec<usize>,
        tmp: Option<PathBuf>,
        chan: SchedChannel,
    }
    let mut args: Vec<Args> = vec![];
    let mut tmp_dirs = vec![];
    for p in 0..n {
        let ov = job.overrides.iter().find(|o| o.party == p);
        let tmp = if job.tmp.get(p).copied().unwrap_or(false) {
            // (unique per run even if two jobs carry the same id)
            static RUN_NO: std::sync::atomic::AtomicUsize = std::sync::atomic::AtomicUsize::new(0);
            let k = RUN_NO.fetch_add(1, std::sync::atomic::Ordering::Relaxed);
            let d = work.join(format!("tmp-{}-{}-{}-p{}", std::process::id(), k, sanitize(&job.id), p));
            std::fs::create_dir_all(&d).expect("create tmp dir");
            tmp_dirs.push(d.clone());
            Some(d)
        } else {
            None
        };
        args.push(Args {
            circ: ov
                .and_then(|o| o.circuit.as_ref())
                .map(|c| c.to_circuit())
                .unwrap_or_else(|| base.clone()),
            inputs: ov
                .and_then(|o| o.inputs.clone())
                .unwrap_or_else(|| job.inputs.get(p).cloned().unwrap_or_default()),
            p_eval: ov.and_then(|o| o.p_eval).unwrap_or(job.p_eval),
            p_own: ov.and_then(|o| o.p_own).unwrap_or(p),
            p_out: ov
                .and_then(|o| o.p_out.clone())
                .unwrap_or_else(|| job.p_out.clone()),
            tmp,
            chan: SchedChannel {
                party: p,
                net: net.clone(),
            },
        });
    }
    let probes: Rc<RefCell<Vec<ProbeEv>>> = Rc::new(RefCell::new(vec![]));
    if job.probes {
        let sink = probes.clone();
        let netp = net.clone();
        polytune::verif::set_probe(Some(Box::new(move |name, p, vals| {
            // try_borrow: a probe may fire while the network is borrowed by a send
            let seq = netp.try_borrow().map(|n| n.log.len()).unwrap_or(0);
            sink.borrow_mut().push(ProbeEv {
                name: name.to_string(),
                p,
                vals: vals.iter().map(|v| crate::adv::limbs(*v)).collect(),
                seq,
            });
        })));
    }
    let taps_hit = Rc::new(RefCell::new(0usize));
    if !job.taps.is_empty() {
        let taps = job.taps.clone();
        let hit = taps_hit.clone();
        polytune::verif::set_tap(Some(Box::new(move |name, p, idx, v| {
            if taps.iter().any(|t| t.party == p && t.name == name && t.idx == idx) {
                *hit.borrow_mut() += 1;
                !v
            } else {
                v
            }
        })));
    }
    let mut sched = Scheduler::new(job.policy.clone());
    sched.record_taken = job.record_schedule;
    alloc::reset_peak();
    let outcomes = {
        let futs: Vec<PartyFut<Result<Vec<bool>, polytune::Error>>> = args
            .iter()
            .map(|a| {
                Box::pin(polytune::mpc(
                    &a.chan,
                    &a.circ,
                    &a.inputs,
                    a.p_eval,
                    a.p_own,
                    &a.p_out,
                    a.tmp.as_deref(),
                )) as PartyFut<_>
            })
            .collect();
        run(&net, futs, &mut sched, 50_000_000)
    };
    let peak_alloc = alloc::peak();
    polytune::verif::set_probe(None);
    polytune::verif::set_tap(None);
    let mut tmp_left = 0;
    for d in &tmp_dirs {
        if let Ok(rd) = std::fs::read_dir(d) {
            tmp_left += rd.count();
        }
        let _ = std::fs::remove_dir_all(d);
    }
    let results = outcomes
        .into_iter()
        .enumerate()
        .map(|(p, o)| match o {
            Outcome::Done(Ok(out)) => PartyResult {
                p,
                kind: "ok".into(),
                out,
                err: String::new(),
                detail: String::new(),
            },
            Outcome::Done(Err(e)) => {
                let d = format!("{e:?}");
                PartyResult {
                    p,
                    kind: "err".into(),
                    out: vec![],
                    err: err_class(&d),
                    detail: d.chars().take(300).collect(),
                }
            }
            Outcome::Panic(m) => PartyResult {
                p,
                kind: "panic".into(),
                out: vec![],
                err: String::new(),
                detail: m.chars().take(300).collect(),
            },
            Outcome::Hang => PartyResult {
                p,
                kind: "hang".into(),
                out: vec![],
                err: String::new(),
                detail: String::new(),
            },
            Outcome::Crashed => PartyResult {
                p,
                kind: "crashed".into(),
                out: vec![],
                err: String::new(),
                detail: String::new(),
            },
        })
        .collect();
    let applied = applied.borrow().clone();
    EngineRun {
        results,
        net,
        steps: sched.steps,
        drift: sched.drift,
        schedule: sched.taken,
        tmp_left,
        peak_alloc,
        applied,
        probes: probes.borrow().clone(),
        taps_hit: *taps_hit.borrow(),
    }
}

fn sanitize(s: &str) -> String {
    s.chars()
        .map(|c| if c.is_alphanumeric() { c } else { '_' })
        .collect()
}

/// ndjson lines for TLC: one `cfg` line, the operation events, one `res`
/// line per party and one `end` line with run-level counters.
pub fn to_ndjson(job: &EngineJob, r: &EngineRun, out: &mut Vec<String>) {
    let c = &job.circuit;
    out.push(
        json!({
            "ev": "cfg", "run": job.id, "n": c.n(), "pe": job.p_eval, "po": job.p_out,
            "cap": job.cap, "tmp": job.tmp,
            "inputs": job.inputs,
            "circ": { "ir": c.input_regs, "insts": c.insts, "mr": c.max_reg, "or": c.output_regs, "ands": c.and_ops },
            "tag": if job.tag.is_null() { json!("") } else { job.tag.clone() },
        })
        .to_string(),
    );
    let net = r.net.borrow();
    for e in &net.log {
        let mut v = json!({"ev": e.ev, "p": e.p, "d": e.d, "q": e.q, "ph": e.ph, "len": e.len, "ok": e.ok});
        if let Some(s) = &e.some {
            v["some"] = json!(s);
        }
        out.push(v.to_string());
    }
    for pr in &r.results {
        out.push(
            json!({"ev": "res", "p": pr.p, "kind": pr.kind, "out": pr.out, "err": pr.err, "detail": pr.detail})
                .to_string(),
        );
    }
    for pe in &r.probes {
        out.push(json!({"ev": "probe", "name": pe.name, "p": pe.p, "vals": pe.vals, "seq": pe.seq}).to_string());
    }
    for m in &net.msgs {
        if job.content_phases.iter().any(|p| *p == m.phase) {
            let decoded = crate::adv::schema(&m.phase)
                .and_then(|s| crate::adv::decode_all(&s, &m.sent))
                .map(|v| crate::adv::to_json(&v))
                .unwrap_or(Value::Null);
            if !decoded.is_null() {
                out.push(json!({"ev": "msg", "from": m.from, "to": m.to, "ph": m.phase, "seq": m.seq, "v": decoded}).to_string());
            }
        }
    }
    if job.fields {
        let mut vals: Vec<u128> = vec![];
        // the same without the leaky-AND check values (for parties that aborted on a protocol check, see Mon_C07)
        let mut vals_nolaand: Vec<u128> = vec![];
        let mut undecoded = 0;
        for m in &net.msgs {
            match crate::adv::schema(&m.phase).and_then(|s| crate::adv::decode_all(&s, &m.sent)) {
                Some(v) => {
                    let before = vals.len();
                    crate::adv::collect_u128(&v, &mut vals);
                    // the aShare decommitment is a byte string: bit, then one big-endian MAC per other party
                    if m.phase == "fashare ver" {
                        if let crate::adv::V::Seq(items) = &v {
                            for it in items {
                                if let crate::adv::V::Bytes(b) = it {
                                    for ch in b.get(1..).unwrap_or(&[]).chunks_exact(16) {
                                        vals.push(u128::from_be_bytes(ch.try_into().expect("16 bytes")));
                                    }
                                }
                            }
                        }
                    }
                    if m.phase != "flaand hash" {
                        vals_nolaand.extend_from_slice(&vals[before..]);
                    }
                }
                None => undecoded += 1,
            }
        }
        vals.sort();
        vals.dedup();
        vals_nolaand.sort();
        vals_nolaand.dedup();
        // raw scan: each probed delta, both byte orders, every offset of every message
        let mut raw = vec![];
        for pe in r.probes.iter().filter(|p| p.name == "delta") {
            let d = pe.vals[0].iter().enumerate().fold(0u128, |a, (i, x)| a | ((*x as u128) << (16 * i)));
            let (le, be) = (d.to_le_bytes(), d.to_be_bytes());
            let hits: usize = net.msgs.iter().map(|m| crate::adv::count_sub(&m.sent, &le) + crate::adv::count_sub(&m.sent, &be)).sum();
            raw.push(json!({"p": pe.p, "hits": hits}));
        }
        out.push(json!({"ev": "fields", "vals": vals.iter().map(|v| crate::adv::limbs(*v)).collect::<Vec<_>>(),
                        "vals_nolaand": vals_nolaand.iter().map(|v| crate::adv::limbs(*v)).collect::<Vec<_>>(),
                        "undecoded": undecoded, "raw": raw, "messages": net.msgs.len()}).to_string());
    }
    if job.predict {
        predict(job, &net.msgs, out);
    }
    if let Some((h, bits)) = &job.canary {
        // the party's plain input bits packed LSB-first and MSB-first into bytes
        let pack = |msb: bool| -> Vec<u8> {
            bits.chunks(8)
                .map(|c| c.iter().enumerate().fold(0u8, |a, (i, b)| a | ((*b as u8) << if msb { 7 - i } else { i })))
                .collect()
        };
        let (p1, p2) = (pack(false), pack(true));
        // one byte per bit, as bincode encodes Vec<bool>
        let p3: Vec<u8> = bits.iter().map(|b| *b as u8).collect();
        let hits: usize = net
            .msgs
            .iter()
            .filter(|m| m.from == *h)
            .map(|m| crate::adv::count_sub(&m.sent, &p1) + crate::adv::count_sub(&m.sent, &p2) + crate::adv::count_sub(&m.sent, &p3))
            .sum();
        out.push(json!({"ev": "canary", "p": h, "hits": hits}).to_string());
    }
    out.push(
        json!({"ev": "end", "run": job.id, "steps": r.steps, "drift": r.drift, "maxout": net.max_outstanding, "maxocc": net.max_occ,
               "tmpleft": r.tmp_left, "peak": r.peak_alloc, "brecv": net.bytes_recv, "applied": r.applied,
               "taps_hit": r.taps_hit,
               "sched": r.schedule.iter().map(|(p,d,q)| json!([p, d, q])).collect::<Vec<_>>() })
        .to_string(),
    );
}


/// C04(c): what an observer of the wire can compute from the coin-toss openings
/// ("RNG ver"): the seed of every pairwise stream and of the multi-party stream,
/// hence the first KOS check coefficient of every pair and the bucket permutation
/// of the first aAND batch -- together with the moment (event sequence number) from
/// which they are known and the moments at which the data under check is sent.
fn predict(job: &EngineJob, msgs: &[crate::exec::MsgRec], out: &mut Vec<String>) {
    use rand::{RngCore, SeedableRng, seq::SliceRandom};
    use rand_chacha::ChaCha20Rng;
    let n = job.circuit.n();
    let body = |m: &crate::exec::MsgRec| -> Option<[u8; 32]> {
        // Vec<u8> of length 32 in bincode legacy: u64 length + bytes
        if m.sent.len() == 40 { m.sent[8..40].try_into().ok() } else { None }
    };
    // k-th "RNG ver" message per ordered pair: 0 = pairwise toss, 1 = multi-party toss
    let mut seen: std::collections::HashMap<(usize, usize), usize> = Default::default();
    let mut pair: std::collections::HashMap<(usize, usize), ([u8; 32], usize)> = Default::default();
    let mut multi: Vec<Option<([u8; 32], usize)>> = vec![None; n];
    for m in msgs.iter().filter(|m| m.phase == "RNG ver") {
        let k = seen.entry((m.from, m.to)).or_insert(0);
        if let Some(b) = body(m) {
            if *k == 0 {
                pair.insert((m.from, m.to), (b, m.seq));
            } else if *k == 1 && multi[m.from].is_none() {
                multi[m.from] = Some((b, m.seq));
            }
        }
        *k += 1;
    }
    for a in 0..n {
        for b in (a + 1)..n {
            if let (Some((x, s1)), Some((y, s2))) = (pair.get(&(a, b)), pair.get(&(b, a))) {
                let seed: [u8; 32] = std::array::from_fn(|i| x[i] ^ y[i]);
                let mut rng = ChaCha20Rng::from_seed(seed);
                let mut chi = [0u8; 16];
                rng.fill_bytes(&mut chi);
                out.push(json!({"ev": "predict", "name": "kos_chi", "a": a, "b": b,
                                "val": crate::adv::limbs(u128::from_ne_bytes(chi)), "known_at": (*s1).max(*s2)}).to_string());
            }
        }
    }
    if multi.iter().all(|m| m.is_some()) {
        let mut seed = [0u8; 32];
        let mut known = 0;
        for m in multi.iter().flatten() {
            for i in 0..32 {
                seed[i] ^= m.0[i];
            }
            known = known.max(m.1);
        }
        // the first aBit call seeds the generator of its test combinations with the first 16 bytes of the stream:
        // the first 128 coefficient bits of its first test combination
        {
            let mut rng = ChaCha20Rng::from_seed(seed);
            let mut s16 = [0u8; 16];
            rng.fill_bytes(&mut s16);
            let first = polytune::verif::aes_rng_fill(s16, &[16]);
            let b: [u8; 16] = first[0].clone().try_into().expect("16 bytes");
            out.push(json!({"ev": "predict", "name": "abit_r0", "val": crate::adv::limbs(u128::from_le_bytes(b)),
                            "known_at": known}).to_string());
        }
        let c = &job.circuit;
        let sb: usize = c.input_regs.iter().sum::<usize>() + c.and_ops;
        let batch = sb.min(sb.div_ceil(9).max(1000));
        let chunks = if batch == 0 { 0 } else { sb.div_ceil(batch) };
        let abatch = c.and_ops.min(c.and_ops.div_ceil(9).max(1000));
        if abatch > 0 {
            let mut rng = ChaCha20Rng::from_seed(seed);
            // one 16-byte draw per aBit call: the random-share chunks, then the first AND batch
            for _ in 0..(chunks + 1) {
                let mut b = [0u8; 16];
                rng.fill_bytes(&mut b);
            }
            let bucket = if abatch >= 280_000 { 3 } else if abatch >= 3_100 { 4 } else { 5 };
            let mut idx: Vec<usize> = (0..abatch * bucket).collect();
            idx.shuffle(&mut rng);
            out.push(json!({"ev": "predict", "name": "bucket_perm", "vals": idx.iter().take(16).collect::<Vec<_>>(),
                            "lprime": abatch * bucket, "known_at": known}).to_string());
        }
    }
    // when the data under check goes on the wire
    for m in msgs.iter().filter(|m| m.phase == "ALSZ_OT_setup" || m.phase == "haand") {
        out.push(json!({"ev": "data", "ph": m.phase, "from": m.from, "to": m.to, "seq": m.seq}).to_string());
    }
}

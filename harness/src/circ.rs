//! JSON-friendly register circuits, a seeded generator for the families named
//! by C01, and a clear-text evaluator used only for sanity output (the oracle
//! used for verdicts is `ClearEval` in spec/Circuit.tla).

use polytune::garble_lang::register_circuit::{And, Circuit, Input, Inst, Not, Op, Reg, Xor};
use rand::{Rng, seq::SliceRandom};
use serde::{Deserialize, Serialize};

#[derive(Serialize, Deserialize, Clone, Debug, PartialEq)]
pub struct JInst {
    /// "I" input (a = party, b = input index), "A" and, "X" xor, "N" not (a only)
    pub op: String,
    pub a: u32,
    pub b: u32,
    pub out: u32,
}

#[derive(Serialize, Deserialize, Clone, Debug, PartialEq)]
pub struct JCircuit {
    pub input_regs: Vec<usize>,
    pub insts: Vec<JInst>,
    pub max_reg: usize,
    pub output_regs: Vec<u32>,
    pub and_ops: usize,
}

impl JCircuit {
    pub fn to_circuit(&self) -> Circuit {
        Circuit {
            input_regs: self.input_regs.clone(),
            insts: self
                .insts
                .iter()
                .map(|i| Inst {
                    out: Reg(i.out),
                    op: match i.op.as_str() {
                        "I" => Op::Input(Input {
                            party: i.a,
                            input: i.b,
                        }),
                        "A" => Op::And(And(Reg(i.a), Reg(i.b))),
                        "X" => Op::Xor(Xor(Reg(i.a), Reg(i.b))),
                        "N" => Op::Not(Not(Reg(i.a))),
                        o => panic!("bad op {o}"),
                    },
                })
                .collect(),
            max_reg_count: self.max_reg,
            output_regs: self.output_regs.iter().map(|r| Reg(*r)).collect(),
            and_ops: self.and_ops,
        }
    }

    pub fn n(&self) -> usize {
        self.input_regs.len()
    }
}

#[derive(Clone, Debug, Deserialize, Serialize)]
pub struct GenParams {
    pub n: usize,
    /// maximum inputs per party (some parties get zero)
    pub max_inputs: usize,
    pub gates: usize,
    /// extra registers beyond the inputs (small => heavy reuse)
    pub extra_regs: usize,
    pub outputs: usize,
    pub shuffle_inputs: bool,
}

/// Random valid circuit: all Input instructions first (instruction index =
/// register), then gates that read only registers already written and write
/// *any* register (so inputs and intermediate values are overwritten), outputs
/// drawn with repetition from the written registers (may be input registers).
pub fn gen_circuit(rng: &mut impl Rng, p: &GenParams) -> JCircuit {
    let n = p.n;
    let mut input_regs: Vec<usize> = (0..n).map(|_| rng.random_range(0..=p.max_inputs)).collect();
    if input_regs.iter().all(|&c| c == 0) {
        let k = rng.random_range(0..n);
        input_regs[k] = 1;
    }
    let mut pairs: Vec<(u32, u32)> = vec![];
    for (party, &c) in input_regs.iter().enumerate() {
        for i in 0..c {
            pairs.push((party as u32, i as u32));
        }
    }
    if p.shuffle_inputs {
        pairs.shuffle(rng);
    }
    let ni = pairs.len();
    let max_reg = ni + p.extra_regs;
    let mut insts: Vec<JInst> = pairs
        .iter()
        .enumerate()
        .map(|(k, &(party, i))| JInst {
            op: "I".into(),
            a: party,
            b: i,
            out: k as u32,
        })
        .collect();
    let mut written: Vec<u32> = (0..ni as u32).collect();
    let mut and_ops = 0;
    for _ in 0..p.gates {
        let a = written[rng.random_range(0..written.len())];
        // x op x is a wanted corner case
        let b = if rng.random_range(0..6) == 0 {
            a
        } else {
            written[rng.random_range(0..written.len())]
        };
        let out = rng.random_range(0..max_reg as u32);
        let kind = rng.random_range(0..10);
        let op = if kind < 4 {
            and_ops += 1;
            "A"
        } else if kind < 7 {
            "X"
        } else {
            "N"
        };
        insts.push(JInst {
            op: op.into(),
            a,
            b: if op == "N" { 0 } else { b },
            out,
        });
        if !written.contains(&out) {
            written.push(out);
        }
    }
    let outs = p.outputs.max(1);
    let output_regs: Vec<u32> = (0..outs)
        .map(|_| written[rng.random_range(0..written.len())])
        .collect();
    JCircuit {
        input_regs,
        insts,
        max_reg,
        output_regs,
        and_ops,
    }
}

/// A circuit with exactly `ands` AND gates (for the batch-boundary cases):
/// a chain acc = (acc AND x_k) XOR y with two registers reused throughout.
pub fn gen_and_chain(n: usize, ands: usize, with_not: bool) -> JCircuit {
    // one input bit per party
    let mut insts: Vec<JInst> = (0..n)
        .map(|p| JInst {
            op: "I".into(),
            a: p as u32,
            b: 0,
            out: p as u32,
        })
        .collect();
    let acc = n as u32;
    let tmp = n as u32 + 1;
    // acc = x0 xor x1
    insts.push(JInst {
        op: "X".into(),
        a: 0,
        b: 1,
        out: acc,
    });
    for k in 0..ands {
        let x = (k % n) as u32;
        insts.push(JInst {
            op: "A".into(),
            a: acc,
            b: x,
            out: tmp,
        });
        insts.push(JInst {
            op: "X".into(),
            a: tmp,
            b: ((k + 1) % n) as u32,
            out: acc,
        });
        if with_not && k % 7 == 3 {
            insts.push(JInst {
                op: "N".into(),
                a: acc,
                b: 0,
                out: acc,
            });
        }
    }
    JCircuit {
        input_regs: vec![1; n],
        insts,
        max_reg: n + 2,
        output_regs: vec![acc, 0, acc],
        and_ops: ands,
    }
}

pub fn clear_eval(c: &JCircuit, inputs: &[Vec<bool>]) -> Vec<bool> {
    let mut regs = vec![false; c.max_reg];
    for i in &c.insts {
        let v = match i.op.as_str() {
            "I" => inputs[i.a as usize][i.b as usize],
            "A" => regs[i.a as usize] & regs[i.b as usize],
            "X" => regs[i.a as usize] ^ regs[i.b as usize],
            "N" => !regs[i.a as usize],
            _ => unreachable!(),
        };
        regs[i.out as usize] = v;
    }
    c.output_regs.iter().map(|r| regs[*r as usize]).collect()
}

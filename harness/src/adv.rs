//! The adversarial channel: deviations named by a scenario are applied to the
//! messages a corrupted party sends. Messages are decoded into a generic value
//! tree according to a per-phase schema (bincode legacy is plain: u128 = 16 LE
//! bytes, Vec = u64 length + items, Option = tag byte, bool = one byte), the
//! tree is altered, and re-encoded.

use std::{cell::RefCell, rc::Rc};

use rand::{RngCore, SeedableRng};
use rand_chacha::ChaCha8Rng;
use serde::{Deserialize, Serialize};
use serde_json::{Value, json};

use crate::exec::{SendAction, SendCtx, Tamper};

#[derive(Clone, Debug, PartialEq)]
pub enum Sch {
    Seq(Box<Sch>),
    Opt(Box<Sch>),
    Tup(Vec<Sch>),
    Bool,
    U8,
    U128,
    /// fixed number of raw bytes (serde arrays / Block)
    Arr(usize),
    /// Vec<u8>
    Bytes,
}

#[derive(Clone, Debug, PartialEq)]
pub enum V {
    Seq(Vec<V>),
    Opt(Option<Box<V>>),
    Tup(Vec<V>),
    Bool(u8),
    U8(u8),
    U128(u128),
    Arr(Vec<u8>),
    Bytes(Vec<u8>),
}

fn seq(s: Sch) -> Sch {
    Sch::Seq(Box::new(s))
}
fn opt(s: Sch) -> Sch {
    Sch::Opt(Box::new(s))
}

/// Schema of the message sent under a phase label.
pub fn schema(phase: &str) -> Option<Sch> {
    use Sch::*;
    if phase.starts_with("broadcast ") {
        return Some(seq(opt(U128)));
    }
    Some(match phase {
        "RNG comm" => seq(Arr(32)),
        "RNG ver" => seq(U8),
        "CO_OT_s" => seq(U8),
        "CO_OT_r" => seq(Bytes),
        "CO_OT_c0c1" => seq(Tup(vec![Arr(16), Arr(16)])),
        "ALSZ_OT_setup" => seq(Bytes),
        "KOS_OT_x_t0_t1" => seq(Tup(vec![Arr(16), Arr(16), Arr(16)])),
        "KOS_OT_corr" => seq(Arr(16)),
        "KOS_OT_seed" => seq(U8),
        "fabitn" => seq(Tup(vec![Bool, U128])),
        "fashare comm" => seq(Tup(vec![Arr(32), Arr(32), Arr(32)])),
        "fashare ver" => seq(Bytes),
        "fashare di_bi" => seq(U128),
        "haand" => seq(Tup(vec![Bool, Bool])),
        "flaand" => seq(Tup(vec![Bool, U128])),
        "flaand comm" => seq(Arr(32)),
        "flaand hash" => seq(U128),
        "dvalue" => seq(Tup(vec![seq(Bool), seq(U128)])),
        "faand" => seq(Tup(vec![Bool, Bool, U128, U128])),
        "preprocessed gates" => seq(Tup(vec![Bytes, Bytes, Bytes, Bytes])),
        "wire shares" | "output wire shares" | "lambda" => seq(opt(Tup(vec![Bool, U128]))),
        "masked inputs" => seq(opt(Bool)),
        "labels" => seq(opt(U128)),
        _ => return None,
    })
}

pub fn decode(s: &Sch, b: &[u8], pos: &mut usize) -> Option<V> {
    let take = |pos: &mut usize, k: usize| -> Option<&[u8]> {
        if *pos + k > b.len() {
            return None;
        }
        let r = &b[*pos..*pos + k];
        *pos += k;
        Some(r)
    };
    Some(match s {
        Sch::Seq(inner) => {
            let l = u64::from_le_bytes(take(pos, 8)?.try_into().ok()?) as usize;
            if l > b.len() {
                return None;
            }
            let mut v = Vec::with_capacity(l);
            for _ in 0..l {
                v.push(decode(inner, b, pos)?);
            }
            V::Seq(v)
        }
        Sch::Opt(inner) => match take(pos, 1)?[0] {
            0 => V::Opt(None),
            1 => V::Opt(Some(Box::new(decode(inner, b, pos)?))),
            _ => return None,
        },
        Sch::Tup(items) => {
            let mut v = vec![];
            for i in items {
                v.push(decode(i, b, pos)?);
            }
            V::Tup(v)
        }
        Sch::Bool => V::Bool(take(pos, 1)?[0]),
        Sch::U8 => V::U8(take(pos, 1)?[0]),
        Sch::U128 => V::U128(u128::from_le_bytes(take(pos, 16)?.try_into().ok()?)),
        Sch::Arr(k) => V::Arr(take(pos, *k)?.to_vec()),
        Sch::Bytes => {
            let l = u64::from_le_bytes(take(pos, 8)?.try_into().ok()?) as usize;
            V::Bytes(take(pos, l)?.to_vec())
        }
    })
}

/// `Some` positions of a Vec<Option<_>> message (None if the phase has
/// another shape or the bytes do not decode).
pub fn some_positions(phase: &str, data: &[u8]) -> Option<Vec<usize>> {
    let s = schema(phase)?;
    match &s {
        Sch::Seq(inner) if matches!(**inner, Sch::Opt(_)) => {}
        _ => return None,
    }
    match decode_all(&s, data)? {
        V::Seq(items) => Some(
            items
                .iter()
                .enumerate()
                .filter(|(_, v)| matches!(v, V::Opt(Some(_))))
                .map(|(i, _)| i)
                .collect(),
        ),
        _ => None,
    }
}

pub fn decode_all(s: &Sch, b: &[u8]) -> Option<V> {
    let mut pos = 0;
    let v = decode(s, b, &mut pos)?;
    if pos == b.len() { Some(v) } else { None }
}

pub fn encode(v: &V, out: &mut Vec<u8>) {
    match v {
        V::Seq(items) => {
            out.extend((items.len() as u64).to_le_bytes());
            for i in items {
                encode(i, out);
            }
        }
        V::Opt(None) => out.push(0),
        V::Opt(Some(x)) => {
            out.push(1);
            encode(x, out);
        }
        V::Tup(items) => {
            for i in items {
                encode(i, out);
            }
        }
        V::Bool(b) | V::U8(b) => out.push(*b),
        V::U128(x) => out.extend(x.to_le_bytes()),
        V::Arr(b) => out.extend(b),
        V::Bytes(b) => {
            out.extend((b.len() as u64).to_le_bytes());
            out.extend(b);
        }
    }
}

/// JSON rendering used in traces (u128 as 8 limbs of 16 bits, LSB limb first,
/// because TLC integers are 32-bit).
pub fn limbs(x: u128) -> Vec<u32> {
    (0..8).map(|i| ((x >> (16 * i)) & 0xffff) as u32).collect()
}

pub fn to_json(v: &V) -> Value {
    match v {
        V::Seq(items) | V::Tup(items) => Value::Array(items.iter().map(to_json).collect()),
        V::Opt(None) => json!({"some": false}),
        V::Opt(Some(x)) => json!({"some": true, "v": to_json(x)}),
        V::Bool(b) | V::U8(b) => json!(*b),
        V::U128(x) => json!(limbs(*x)),
        V::Arr(b) | V::Bytes(b) => json!(b.iter().map(|x| *x as u32).collect::<Vec<_>>()),
    }
}

fn default_of(s: &Sch) -> V {
    match s {
        Sch::Seq(_) => V::Seq(vec![]),
        Sch::Opt(_) => V::Opt(None),
        Sch::Tup(items) => V::Tup(items.iter().map(default_of).collect()),
        Sch::Bool => V::Bool(0),
        Sch::U8 => V::U8(0),
        Sch::U128 => V::U128(0),
        Sch::Arr(k) => V::Arr(vec![0; *k]),
        Sch::Bytes => V::Bytes(vec![]),
    }
}

#[derive(Deserialize, Serialize, Clone, Debug)]
#[serde(tag = "m")]
pub enum Mutation {
    // ---- byte level --------------------------------------------------
    Empty,
    Truncate { at: usize },
    FlipBit { off: usize, bit: u8 },
    Append { n: usize },
    Random { len: usize, seed: u64 },
    /// the sender vanishes instead of sending this message
    Crash,
    /// the message is sent unchanged (control)
    Keep,
    // ---- structure aware: `path` addresses a node of the value tree --
    /// bool: flip; u8: xor 1
    Flip { path: Vec<usize> },
    /// u128: xor bit `bit`; byte arrays: flip bit `bit` (LSB-first within the array)
    XorBit { path: Vec<usize>, bit: u32 },
    /// u128 / 16-byte array: xor with the u128 given as 8 16-bit limbs (LSB first)
    XorVal { path: Vec<usize>, limbs: Vec<u32> },
    /// set bool/u8 to a raw byte value (e.g. 2 = out of range)
    SetByte { path: Vec<usize>, val: u8 },
    /// Option: Some -> None
    ToNone { path: Vec<usize> },
    /// Option: None -> Some(default or copy of sibling `from`)
    ToSome { path: Vec<usize>, from: Option<usize> },
    /// Seq / Bytes: remove last `k` elements
    Shorten { path: Vec<usize>, cnt: usize },
    /// Seq / Bytes: duplicate the last element `k` times
    Lengthen { path: Vec<usize>, cnt: usize },
    /// Seq / Bytes: make empty
    Clear { path: Vec<usize> },
    /// Seq: swap two elements
    Swap { path: Vec<usize>, i: usize, j: usize },
    /// Seq at `path`: every element (itself a Seq / Bytes) loses its last `cnt` items,
    /// gains `cnt` copies of its last item, or is emptied
    ShortenEach { path: Vec<usize>, cnt: usize },
    LengthenEach { path: Vec<usize>, cnt: usize },
    ClearEach { path: Vec<usize> },
    /// Seq at `path`: xor bit `bit` into every element (u128 / byte arrays)
    XorBitEach { path: Vec<usize>, bit: u32 },
    /// Vec<Option<_>>: the first Some becomes None
    ToNoneAny,
    /// Vec<Option<_>>: every Some becomes None
    ToNoneAll,
    /// Vec<Option<_>>: the first None becomes Some (copy of the first Some, else default)
    ToSomeAny,
    /// Vec<Option<_>>: the LAST None becomes Some (copy of the first Some with booleans set, else default)
    ToSomeLast,
    /// Vec<Option<bool>>: the first None becomes Some(val)
    ToSomeBool { val: u8 },
    /// Vec<Option<u128>>: xor bit `bit` into the first Some value
    XorFirstSome { bit: u32 },
    /// replace the node by the same-position node of the message of phase
    /// instance `k` sent to recipient `to` earlier by this sender (replay)
    CopyFrom { path: Vec<usize>, rcpt: usize, inst: usize },
    /// replace the whole message by the message of the same phase (instance `inst`) that the RECIPIENT has sent to this
    /// sender (a rushing party that waits for its peer's message and sends it back); not applicable while the peer's
    /// message does not exist yet
    Mirror { inst: usize },
}

#[derive(Deserialize, Serialize, Clone, Debug)]
pub struct Dev {
    pub from: usize,
    /// None = every recipient (consistent tampering)
    pub to: Option<usize>,
    pub phase: String,
    /// instance index of (from,to,phase); None = every instance (persistent)
    pub k: Option<usize>,
    #[serde(flatten)]
    pub mutation: Mutation,
}

/// A path that ends at an optional value addresses the value inside it (when present).
fn leaf_mut(v: &mut V) -> &mut V {
    match v {
        V::Opt(Some(x)) => leaf_mut(x),
        other => other,
    }
}

fn node_mut<'a>(v: &'a mut V, s: &Sch, path: &[usize]) -> Option<(&'a mut V, Sch)> {
    if path.is_empty() {
        return Some((v, s.clone()));
    }
    match (v, s) {
        (V::Seq(items), Sch::Seq(inner)) => node_mut(items.get_mut(path[0])?, inner, &path[1..]),
        (V::Tup(items), Sch::Tup(ss)) => {
            node_mut(items.get_mut(path[0])?, ss.get(path[0])?, &path[1..])
        }
        // an Option is transparent for paths when it is Some
        (V::Opt(Some(x)), Sch::Opt(inner)) => node_mut(x, inner, path),
        _ => None,
    }
}

fn xor_arr(b: &mut [u8], x: u128) {
    // interpret the array as it is interpreted by the engine: Block bytes are
    // converted to u128 big-endian (`block_to_u128`); we simply xor LE bytes
    // of x into the array positions from the end, i.e. big-endian.
    let xb = x.to_be_bytes();
    let l = b.len();
    for i in 0..16.min(l) {
        b[l - 16.min(l) + i] ^= xb[16 - 16.min(l) + i];
    }
}

/// Apply a structure-aware mutation; returns None if the path does not exist
/// in this message (the deviation is then not applicable).
pub fn apply_tree(
    m: &Mutation,
    sch: &Sch,
    data: &[u8],
    history: &dyn Fn(usize, usize) -> Option<Vec<u8>>,
) -> Option<Vec<u8>> {
    let mut v = decode_all(sch, data)?;
    match m {
        Mutation::Flip { path } => {
            let (nd, _) = node_mut(&mut v, sch, path)?;
            match leaf_mut(nd) {
                V::Bool(b) | V::U8(b) => *b ^= 1,
                _ => return None,
            }
        }
        Mutation::XorBit { path, bit } => {
            let (nd, _) = node_mut(&mut v, sch, path)?;
            match leaf_mut(nd) {
                V::U128(x) => *x ^= 1u128 << (bit % 128),
                V::Arr(b) | V::Bytes(b) => {
                    if b.is_empty() {
                        return None;
                    }
                    let i = (*bit as usize / 8) % b.len();
                    b[i] ^= 1 << (bit % 8);
                }
                _ => return None,
            }
        }
        Mutation::ShortenEach { .. } | Mutation::LengthenEach { .. } | Mutation::ClearEach { .. } => {
            let (path, cnt, mode) = match m {
                Mutation::ShortenEach { path, cnt } => (path, *cnt, 0),
                Mutation::LengthenEach { path, cnt } => (path, *cnt, 1),
                Mutation::ClearEach { path } => (path, 0, 2),
                _ => unreachable!(),
            };
            let (nd, _) = node_mut(&mut v, sch, path)?;
            let V::Seq(items) = nd else { return None };
            let mut changed = false;
            for it in items.iter_mut() {
                // a tuple element: apply to every Seq / Bytes field of it
                let mut fields: Vec<&mut V> = match it {
                    V::Tup(fs) => fs.iter_mut().collect(),
                    other => vec![other],
                };
                for f in fields.iter_mut() {
                    match f {
                        V::Seq(xs) => {
                            match mode {
                                0 => xs.truncate(xs.len().saturating_sub(cnt)),
                                1 => {
                                    if let Some(last) = xs.last().cloned() {
                                        xs.extend(std::iter::repeat_n(last, cnt));
                                    }
                                }
                                _ => xs.clear(),
                            }
                            changed = true;
                        }
                        V::Bytes(b) => {
                            match mode {
                                0 => b.truncate(b.len().saturating_sub(cnt)),
                                1 => b.extend(std::iter::repeat_n(0x5a, cnt)),
                                _ => b.clear(),
                            }
                            changed = true;
                        }
                        _ => {}
                    }
                }
            }
            if !changed {
                return None;
            }
        }
        Mutation::XorBitEach { path, bit } => {
            let (nd, _) = node_mut(&mut v, sch, path)?;
            let V::Seq(items) = nd else { return None };
            if items.is_empty() {
                return None;
            }
            for it in items.iter_mut() {
                match it {
                    V::U128(x) => *x ^= 1u128 << (bit % 128),
                    V::Arr(b) | V::Bytes(b) => {
                        if b.is_empty() {
                            return None;
                        }
                        let i = (*bit as usize / 8) % b.len();
                        b[i] ^= 1 << (bit % 8);
                    }
                    _ => return None,
                }
            }
        }
        Mutation::XorVal { path, limbs } => {
            let mut x: u128 = 0;
            for (i, l) in limbs.iter().enumerate().take(8) {
                x |= (*l as u128) << (16 * i);
            }
            let (nd, _) = node_mut(&mut v, sch, path)?;
            match nd {
                V::U128(y) => *y ^= x,
                V::Arr(b) | V::Bytes(b) => xor_arr(b, x),
                _ => return None,
            }
        }
        Mutation::SetByte { path, val } => {
            let (nd, _) = node_mut(&mut v, sch, path)?;
            match nd {
                V::Bool(b) | V::U8(b) => *b = *val,
                V::Bytes(b) | V::Arr(b) => {
                    if b.is_empty() {
                        return None;
                    }
                    b[0] = *val
                }
                _ => return None,
            }
        }
        Mutation::ToNone { path } => {
            // address the Option itself: walk to the parent and index
            let (parent_path, last) = path.split_at(path.len().checked_sub(1)?);
            let (nd, _) = node_mut(&mut v, sch, parent_path)?;
            match nd {
                V::Seq(items) | V::Tup(items) => match items.get_mut(last[0])? {
                    o @ V::Opt(Some(_)) => *o = V::Opt(None),
                    _ => return None,
                },
                _ => return None,
            }
        }
        Mutation::ToSome { path, from } => {
            let (parent_path, last) = path.split_at(path.len().checked_sub(1)?);
            let (nd, ps) = node_mut(&mut v, sch, parent_path)?;
            let inner = match &ps {
                Sch::Seq(i) => match &**i {
                    Sch::Opt(x) => (**x).clone(),
                    _ => return None,
                },
                _ => return None,
            };
            match nd {
                V::Seq(items) => {
                    let src = from.and_then(|f| items.get(f).cloned());
                    match items.get_mut(last[0])? {
                        o @ V::Opt(None) => {
                            *o = match src {
                                Some(V::Opt(Some(x))) => V::Opt(Some(x)),
                                _ => V::Opt(Some(Box::new(default_of(&inner)))),
                            }
                        }
                        _ => return None,
                    }
                }
                _ => return None,
            }
        }
        Mutation::Shorten { path, cnt: k } => {
            let (nd, _) = node_mut(&mut v, sch, path)?;
            match nd {
                V::Seq(items) => {
                    if items.len() < *k {
                        return None;
                    }
                    items.truncate(items.len() - k)
                }
                V::Bytes(b) => {
                    if b.len() < *k {
                        return None;
                    }
                    b.truncate(b.len() - k)
                }
                _ => return None,
            }
        }
        Mutation::Lengthen { path, cnt: k } => {
            let (nd, s) = node_mut(&mut v, sch, path)?;
            match nd {
                V::Seq(items) => {
                    let last = items.last().cloned().unwrap_or_else(|| match &s {
                        Sch::Seq(i) => default_of(i),
                        _ => V::U8(0),
                    });
                    for _ in 0..*k {
                        items.push(last.clone());
                    }
                }
                V::Bytes(b) => {
                    let last = b.last().copied().unwrap_or(0);
                    for _ in 0..*k {
                        b.push(last);
                    }
                }
                _ => return None,
            }
        }
        Mutation::Clear { path } => {
            let (nd, _) = node_mut(&mut v, sch, path)?;
            match nd {
                V::Seq(items) => items.clear(),
                V::Bytes(b) => b.clear(),
                _ => return None,
            }
        }
        Mutation::Swap { path, i, j } => {
            let (nd, _) = node_mut(&mut v, sch, path)?;
            match nd {
                V::Seq(items) => {
                    if *i >= items.len() || *j >= items.len() || items[*i] == items[*j] {
                        return None;
                    }
                    items.swap(*i, *j)
                }
                _ => return None,
            }
        }
        Mutation::ToSomeLast => {
            let inner = match sch {
                Sch::Seq(i) => match &**i {
                    Sch::Opt(x) => (**x).clone(),
                    _ => return None,
                },
                _ => return None,
            };
            let V::Seq(items) = &mut v else { return None };
            let i = items.iter().rposition(|x| matches!(x, V::Opt(None)))?;
            let mut nv = match items.iter().find(|x| matches!(x, V::Opt(Some(_)))).cloned() {
                Some(V::Opt(Some(x))) => *x,
                _ => default_of(&inner),
            };
            // a set bit, so that the value is consumed as "1"
            match &mut nv {
                V::Bool(b) => *b = 1,
                V::Tup(fs) => {
                    if let Some(V::Bool(b)) = fs.first_mut() {
                        *b = 1
                    }
                }
                _ => {}
            }
            items[i] = V::Opt(Some(Box::new(nv)));
        }
        Mutation::ToSomeBool { val } => {
            let V::Seq(items) = &mut v else { return None };
            let i = items.iter().position(|x| matches!(x, V::Opt(None)))?;
            items[i] = V::Opt(Some(Box::new(V::Bool(*val))));
        }
        Mutation::ToNoneAny | Mutation::ToNoneAll | Mutation::ToSomeAny | Mutation::XorFirstSome { .. } => {
            let inner = match sch {
                Sch::Seq(i) => match &**i {
                    Sch::Opt(x) => (**x).clone(),
                    _ => return None,
                },
                _ => return None,
            };
            let V::Seq(items) = &mut v else { return None };
            match m {
                Mutation::ToNoneAny => {
                    let i = items.iter().position(|x| matches!(x, V::Opt(Some(_))))?;
                    items[i] = V::Opt(None);
                }
                Mutation::ToNoneAll => {
                    if !items.iter().any(|x| matches!(x, V::Opt(Some(_)))) {
                        return None;
                    }
                    for x in items.iter_mut() {
                        *x = V::Opt(None);
                    }
                }
                Mutation::ToSomeAny => {
                    let i = items.iter().position(|x| matches!(x, V::Opt(None)))?;
                    let src = items.iter().find(|x| matches!(x, V::Opt(Some(_)))).cloned();
                    items[i] = src.unwrap_or_else(|| V::Opt(Some(Box::new(default_of(&inner)))));
                }
                Mutation::XorFirstSome { bit } => {
                    let i = items.iter().position(|x| matches!(x, V::Opt(Some(_))))?;
                    match &mut items[i] {
                        V::Opt(Some(b)) => match &mut **b {
                            V::U128(x) => *x ^= 1u128 << (bit % 128),
                            _ => return None,
                        },
                        _ => return None,
                    }
                }
                _ => unreachable!(),
            }
        }
        Mutation::CopyFrom { path, rcpt: to, inst: k } => {
            let other = history(*to, *k)?;
            let mut ov = decode_all(sch, &other)?;
            let (src, _) = node_mut(&mut ov, sch, path)?;
            let src = src.clone();
            let (nd, _) = node_mut(&mut v, sch, path)?;
            if *nd == src {
                return None;
            }
            *nd = src;
        }
        _ => return None,
    }
    let mut out = vec![];
    encode(&v, &mut out);
    Some(out)
}

pub fn apply_raw(m: &Mutation, mut data: Vec<u8>) -> Option<Vec<u8>> {
    match m {
        Mutation::Empty => Some(vec![]),
        Mutation::Keep => Some(data),
        Mutation::Truncate { at } => {
            if *at >= data.len() {
                return None;
            }
            data.truncate(*at);
            Some(data)
        }
        Mutation::FlipBit { off, bit } => {
            if *off >= data.len() {
                return None;
            }
            data[*off] ^= 1 << (bit % 8);
            Some(data)
        }
        Mutation::Append { n } => {
            data.extend(std::iter::repeat_n(0xa5u8, *n));
            Some(data)
        }
        Mutation::Random { len, seed } => {
            let mut r = ChaCha8Rng::seed_from_u64(*seed);
            let mut v = vec![0u8; *len];
            r.fill_bytes(&mut v);
            Some(v)
        }
        _ => None,
    }
}

pub fn is_raw(m: &Mutation) -> bool {
    matches!(
        m,
        Mutation::Empty
            | Mutation::Keep
            | Mutation::Truncate { .. }
            | Mutation::FlipBit { .. }
            | Mutation::Append { .. }
            | Mutation::Random { .. }
            | Mutation::Crash
    )
}

/// Build the tamper closure; `applied[i]` is set when deviation i changed a message.
pub fn make_tamper(devs: Vec<Dev>, applied: Rc<RefCell<Vec<bool>>>) -> Tamper {
    // history of original messages per (from, to, phase) for CopyFrom
    let mut hist: std::collections::HashMap<(usize, usize, String), Vec<Vec<u8>>> =
        Default::default();
    Box::new(move |ctx: &SendCtx, data: Vec<u8>| {
        hist.entry((ctx.from, ctx.to, ctx.phase.to_string()))
            .or_default()
            .push(data.clone());
        let mut cur = data;
        for (i, d) in devs.iter().enumerate() {
            if d.from != ctx.from || d.phase != ctx.phase {
                continue;
            }
            if let Some(t) = d.to {
                if t != ctx.to {
                    continue;
                }
            }
            if let Some(k) = d.k {
                if k != ctx.k_phase {
                    continue;
                }
            }
            if matches!(d.mutation, Mutation::Crash) {
                applied.borrow_mut()[i] = true;
                return SendAction::Crash;
            }
            let new = if let Mutation::Mirror { inst } = &d.mutation {
                hist.get(&(ctx.to, ctx.from, ctx.phase.to_string())).and_then(|v| v.get(*inst).cloned())
            } else if is_raw(&d.mutation) {
                apply_raw(&d.mutation, cur.clone())
            } else if let Some(s) = schema(ctx.phase) {
                let from = ctx.from;
                let phase = ctx.phase.to_string();
                let h = &hist;
                apply_tree(&d.mutation, &s, &cur, &|to, k| {
                    h.get(&(from, to, phase.clone())).and_then(|v| v.get(k).cloned())
                })
            } else {
                None
            };
            if let Some(new) = new {
                if new != cur {
                    applied.borrow_mut()[i] = true;
                }
                cur = new;
            }
        }
        SendAction::Deliver(cur)
    })
}

/// All 128-bit fields of a decoded message (u128 values; 16-byte arrays read
/// big-endian, the convention of `block_to_u128`).
pub fn collect_u128(v: &V, out: &mut Vec<u128>) {
    match v {
        V::Seq(items) | V::Tup(items) => items.iter().for_each(|x| collect_u128(x, out)),
        V::Opt(Some(x)) => collect_u128(x, out),
        V::U128(x) => out.push(*x),
        V::Arr(b) if b.len() == 16 => out.push(u128::from_be_bytes(b.as_slice().try_into().expect("16 bytes"))),
        _ => {}
    }
}

/// Occurrences of `needle` at any byte offset of `hay`.
pub fn count_sub(hay: &[u8], needle: &[u8]) -> usize {
    if needle.is_empty() || hay.len() < needle.len() {
        return 0;
    }
    hay.windows(needle.len()).filter(|w| *w == needle).count()
}

//! `pt <cmd> <jobs.ndjson> <out.ndjson> [threads]`
use std::{
    io::{BufRead, BufReader, Write},
    sync::{Arc, Mutex, atomic::{AtomicUsize, Ordering}},
};

use ptverif::{alloc, engine, exec, filebuf, pre, prims, server};

#[global_allocator]
static A: alloc::Counting = alloc::Counting;

fn main() {
    let args: Vec<String> = std::env::args().collect();
    if args.len() < 4 {
        eprintln!("usage: pt <engine> <jobs.ndjson> <out.ndjson> [threads]");
        std::process::exit(2);
    }
    let cmd = args[1].clone();
    let jobs_path = args[2].clone();
    let out_path = args[3].clone();
    let threads: usize = args.get(4).and_then(|s| s.parse().ok()).unwrap_or(16);
    exec::install_quiet_panic_hook();
    let work = std::path::PathBuf::from(
        std::env::var("PT_WORK").unwrap_or_else(|_| "/verif/work/tmp".into()),
    );
    std::fs::create_dir_all(&work).expect("work dir");
    let lines: Vec<String> = BufReader::new(std::fs::File::open(&jobs_path).expect("jobs file"))
        .lines()
        .map(|l| l.expect("line"))
        .filter(|l| !l.trim().is_empty())
        .collect();
    let n = lines.len();
    let lines = Arc::new(lines);
    let next = Arc::new(AtomicUsize::new(0));
    let results: Arc<Mutex<Vec<Option<Vec<String>>>>> = Arc::new(Mutex::new(vec![None; n]));
    let mut hs = vec![];
    for _ in 0..threads.min(n.max(1)) {
        let lines = lines.clone();
        let next = next.clone();
        let results = results.clone();
        let cmd = cmd.clone();
        let work = work.clone();
        hs.push(
            std::thread::Builder::new()
                .stack_size(256 << 20)
                .spawn(move || {
                    loop {
                        let i = next.fetch_add(1, Ordering::SeqCst);
                        if i >= lines.len() {
                            break;
                        }
                        let mut out = vec![];
                        match cmd.as_str() {
                            "engine" => {
                                let job: engine::EngineJob =
                                    serde_json::from_str(&lines[i]).expect("job json");
                                let r = engine::run_engine(&job, &work);
                                engine::to_ndjson(&job, &r, &mut out);
                            }
                            "pre" => {
                                let job: pre::PreJob = serde_json::from_str(&lines[i]).expect("job json");
                                out.push(pre::run_pre(&job));
                            }
                            "prims" => {
                                let job: prims::PrimJob = serde_json::from_str(&lines[i]).expect("job json");
                                out.push(prims::run_prim(&job));
                            }
                            "filebuf" => {
                                let job: filebuf::BufJob =
                                    serde_json::from_str(&lines[i]).expect("job json");
                                out.push(filebuf::run_buf(&job, &work));
                            }
                            "server" => {
                                let job: server::ServerJob =
                                    serde_json::from_str(&lines[i]).expect("job json");
                                let r = server::run_server(&job);
                                out.extend(r.lines);
                            }
                            other => {
                                eprintln!("unknown command {other}");
                                std::process::exit(2);
                            }
                        }
                        results.lock().expect("lock")[i] = Some(out);
                    }
                })
                .expect("spawn"),
        );
    }
    for h in hs {
        h.join().expect("worker");
    }
    let mut f = std::io::BufWriter::new(std::fs::File::create(&out_path).expect("out file"));
    for r in results.lock().expect("lock").iter() {
        for l in r.as_ref().expect("result") {
            writeln!(f, "{l}").expect("write");
        }
    }
}

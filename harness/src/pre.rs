//! C10 / C11: drives the real preprocessing (distributed and trusted dealer)
//! and the real OT extension through the verification wrappers and records
//! every party's outputs as plain integers (16-bit limbs) for TLC.

use std::{cell::RefCell, rc::Rc};

use polytune::bench_reexports::{Block, kos_ot_receiver, kos_ot_sender};
use rand::{Rng, RngCore, SeedableRng};
use rand_chacha::{ChaCha8Rng, ChaCha20Rng};
use serde::{Deserialize, Serialize};
use serde_json::{Value, json};

use crate::{
    adv::limbs,
    exec::{Net, Outcome, PartyFut, Policy, SchedChannel, Scheduler, run},
};

#[derive(Deserialize, Serialize, Clone, Debug)]
#[serde(tag = "kind")]
pub enum PreJob {
    /// distributed preprocessing of n parties: l_rand random shares, AND shares for the first l_and pairs
    Dist { id: String, n: usize, l_rand: usize, l_and: usize, seed: u64, #[serde(default)] sample: usize },
    /// trusted dealer serving n parties
    Dealer { id: String, n: usize, l_rand: usize, l_and: usize, seed: u64 },
    /// correlated OT of length m between two parties; order: "sr" party 0 sends first then receives,
    /// choices: "zero" | "one" | "random"
    Ot {
        id: String,
        m: usize,
        choices: String,
        seed: u64,
        both: bool,
        /// correlation vector: "" / "random", "zero", "sparse" (zero, all-ones and one-bit entries mixed in), "const"
        #[serde(default)]
        corr: String,
    },
}

fn share_json(s: &polytune::verif::PShare) -> Value {
    json!({"b": s.bit as u8,
           "m": s.macs.iter().map(|x| limbs(*x)).collect::<Vec<_>>(),
           "k": s.keys.iter().map(|x| limbs(*x)).collect::<Vec<_>>()})
}

fn pick(idx_total: usize, sample: usize, seed: u64) -> Vec<usize> {
    if sample == 0 || idx_total <= sample {
        return (0..idx_total).collect();
    }
    let mut rng = ChaCha8Rng::seed_from_u64(seed);
    let mut v: Vec<usize> = vec![0, idx_total - 1];
    while v.len() < sample {
        v.push(rng.random_range(0..idx_total));
    }
    v.sort();
    v.dedup();
    v
}

pub fn run_pre(job: &PreJob) -> String {
    match job {
        PreJob::Dist { id, n, l_rand, l_and, seed, sample } => {
            let n = *n;
            let net = Rc::new(RefCell::new(Net::new(n, 1)));
            net.borrow_mut().record_events = false;
            let chans: Vec<SchedChannel> = (0..n).map(|p| SchedChannel { party: p, net: net.clone() }).collect();
            let futs: Vec<PartyFut<Result<polytune::verif::PreOut, polytune::Error>>> = chans
                .iter()
                .enumerate()
                .map(|(p, c)| Box::pin(polytune::verif::preprocess(c, p, n, *l_rand, *l_and)) as PartyFut<_>)
                .collect();
            let mut sched = Scheduler::new(Policy::Random { seed: *seed });
            let outs = run(&net, futs, &mut sched, 500_000_000);
            let mut parties = vec![];
            let mut status = vec![];
            let idx = pick(*l_rand, *sample, *seed);
            let aidx = pick(*l_and, *sample, *seed + 1);
            for o in &outs {
                match o {
                    Outcome::Done(Ok(po)) => {
                        status.push("ok".to_string());
                        parties.push(json!({
                            "delta": limbs(po.delta),
                            "shares": idx.iter().map(|i| share_json(&po.shares[*i])).collect::<Vec<_>>(),
                            "ands": aidx.iter().map(|i| share_json(&po.ands[*i])).collect::<Vec<_>>(),
                            "andin": aidx.iter().map(|i| [po.shares[2 * i].bit as u8, po.shares[2 * i + 1].bit as u8]).collect::<Vec<_>>(),
                            "nshares": po.shares.len(), "nands": po.ands.len(),
                            "multi_coin": limbs(po.multi_coin as u128),
                            "pair_coins": po.pair_coins.iter().map(|c| limbs(c.unwrap_or(0) as u128)).collect::<Vec<_>>(),
                            "bucket": po.bucket,
                        }));
                    }
                    Outcome::Done(Err(e)) => status.push(format!("err:{e:?}").chars().take(100).collect()),
                    Outcome::Panic(m) => status.push(format!("panic:{m}").chars().take(100).collect()),
                    _ => status.push("hang".into()),
                }
            }
            json!({"ev": "pre", "run": id, "mode": "dist", "n": n, "l_rand": l_rand, "l_and": l_and,
                   "idx": idx, "aidx": aidx, "status": status, "parties": parties})
            .to_string()
        }
        PreJob::Dealer { id, n, l_rand, l_and, seed } => dealer(id, *n, *l_rand, *l_and, *seed),
        PreJob::Ot { id, m, choices, seed, both, corr } => ot(id, *m, choices, corr, *seed, *both),
    }
}

// ---- trusted dealer ---------------------------------------------------------------------

type WShare = (bool, Vec<(u128, u128)>);

fn enc<T: Serialize>(v: &T) -> Vec<u8> {
    bincode::serde::encode_to_vec(v, bincode::config::legacy()).expect("encode")
}
fn dec<T: serde::de::DeserializeOwned>(b: &[u8]) -> Option<T> {
    bincode::serde::decode_from_slice(b, bincode::config::legacy()).ok().map(|(v, _)| v)
}

fn wshare_json(s: &WShare) -> Value {
    json!({"b": s.0 as u8,
           "m": s.1.iter().map(|(m, _)| limbs(*m)).collect::<Vec<_>>(),
           "k": s.1.iter().map(|(_, k)| limbs(*k)).collect::<Vec<_>>()})
}

fn dealer(id: &str, n: usize, l_rand: usize, l_and: usize, _seed: u64) -> String {
    use polytune::channel::{Channel, SimpleChannel};
    let rt = tokio::runtime::Builder::new_current_thread().enable_time().build().expect("rt");
    let res: Result<Vec<Value>, String> = rt.block_on(async move {
        let mut chans = SimpleChannel::channels(n + 1);
        let dealer_chan = chans.pop().expect("dealer channel");
        let d = n; // the dealer's index
        let dealer = tokio::spawn(async move { polytune::verif::run_dealer(&dealer_chan, n).await });
        let mut hs = vec![];
        for (p, ch) in chans.into_iter().enumerate() {
            hs.push(tokio::spawn(async move {
                let e = |x: &str| format!("party {p}: {x}");
                ch.send_bytes_to(d, enc::<Vec<()>>(&vec![]), "delta").await.map_err(|_| e("send"))?;
                let delta: Vec<u128> = dec(&ch.recv_bytes_from(d, "delta").await.map_err(|_| e("recv delta"))?).ok_or(e("decode delta"))?;
                ch.send_bytes_to(d, enc(&vec![l_rand as u32]), "random shares").await.map_err(|_| e("send"))?;
                let shares: Vec<WShare> = dec(&ch.recv_bytes_from(d, "random shares").await.map_err(|_| e("recv shares"))?).ok_or(e("decode shares"))?;
                let ab: Vec<(WShare, WShare)> = (0..l_and).map(|k| (shares[2 * k].clone(), shares[2 * k + 1].clone())).collect();
                ch.send_bytes_to(d, enc(&ab), "AND shares").await.map_err(|_| e("send"))?;
                let ands: Vec<WShare> = dec(&ch.recv_bytes_from(d, "AND shares").await.map_err(|_| e("recv ands"))?).ok_or(e("decode ands"))?;
                Ok::<_, String>(json!({
                    "delta": limbs(*delta.first().ok_or(e("empty delta"))?),
                    "shares": shares.iter().map(wshare_json).collect::<Vec<_>>(),
                    "ands": ands.iter().map(wshare_json).collect::<Vec<_>>(),
                    "andin": (0..l_and).map(|k| [shares[2 * k].0 as u8, shares[2 * k + 1].0 as u8]).collect::<Vec<_>>(),
                    "nshares": shares.len(), "nands": ands.len(),
                    "multi_coin": limbs(0), "pair_coins": Vec::<Value>::new(), "bucket": 0,
                }))
            }));
        }
        let mut parties = vec![];
        for h in hs {
            parties.push(h.await.map_err(|e| format!("join: {e}"))??);
        }
        dealer.await.map_err(|e| format!("dealer join: {e}"))??;
        Ok(parties)
    });
    match res {
        Ok(parties) => json!({"ev": "pre", "run": id, "mode": "dealer", "n": n, "l_rand": l_rand, "l_and": l_and,
                              "idx": (0..l_rand).collect::<Vec<_>>(), "aidx": (0..l_and).collect::<Vec<_>>(),
                              "status": vec!["ok"; n], "parties": parties})
        .to_string(),
        Err(e) => json!({"ev": "pre", "run": id, "mode": "dealer", "n": n, "l_rand": l_rand, "l_and": l_and,
                         "idx": Vec::<usize>::new(), "aidx": Vec::<usize>::new(), "status": vec![format!("err:{e}"); n],
                         "parties": Vec::<Value>::new()})
        .to_string(),
    }
}

// ---- OT extension -----------------------------------------------------------------------

fn block_to_u128(b: Block) -> u128 {
    // the convention of src/ot.rs: big endian
    let a: [u8; 16] = b.into();
    u128::from_be_bytes(a)
}

fn ot(id: &str, m: usize, choices: &str, corr: &str, seed: u64, both: bool) -> String {
    let net = Rc::new(RefCell::new(Net::new(2, 1)));
    net.borrow_mut().record_events = true;
    let mut rng = ChaCha8Rng::seed_from_u64(seed);
    let mk_choices = |rng: &mut ChaCha8Rng| -> Vec<bool> {
        (0..m)
            .map(|_| match choices {
                "zero" => false,
                "one" => true,
                _ => rng.random(),
            })
            .collect()
    };
    let c0 = mk_choices(&mut rng);
    let c1 = mk_choices(&mut rng);
    let mk_deltas = |rng: &mut ChaCha8Rng| -> Vec<Block> {
        let mut c = [0u8; 16];
        rng.fill_bytes(&mut c);
        (0..m)
            .map(|k| {
                let mut b = [0u8; 16];
                rng.fill_bytes(&mut b);
                match corr {
                    "zero" => Block::from([0u8; 16]),
                    "const" => Block::from(c),
                    "sparse" => match k % 4 {
                        0 => Block::from([0u8; 16]),
                        1 => Block::from(b),
                        2 => Block::from([0xffu8; 16]),
                        _ => Block::from(1u128 << (b[0] % 128)),
                    },
                    _ => Block::from(b),
                }
            })
            .collect()
    };
    let d0 = mk_deltas(&mut rng);
    let d1 = mk_deltas(&mut rng);
    let shared_seed: [u8; 32] = rng.random();
    let chans: Vec<SchedChannel> = (0..2).map(|p| SchedChannel { party: p, net: net.clone() }).collect();
    type Out = Result<(Vec<u128>, Vec<u128>, u64), String>;
    // party 0: sender (with d0) then, if `both`, receiver (with c0); party 1 mirrors it
    let (ch0, ch1) = (&chans[0], &chans[1]);
    let (d0r, d1r, c0r, c1r) = (&d0, &d1, &c0, &c1);
    let f0 = async move {
        let mut sh = ChaCha20Rng::from_seed(shared_seed);
        let s = kos_ot_sender(ch0, d0r, 1, &mut sh).await.map_err(|e| format!("{e:?}"))?;
        let r = if both { kos_ot_receiver(ch0, c0r, 1, &mut sh).await.map_err(|e| format!("{e:?}"))? } else { vec![] };
        Ok((s, r, sh.next_u64()))
    };
    let f1 = async move {
        let mut sh = ChaCha20Rng::from_seed(shared_seed);
        let r = kos_ot_receiver(ch1, c1r, 0, &mut sh).await.map_err(|e| format!("{e:?}"))?;
        let s = if both { kos_ot_sender(ch1, d1r, 0, &mut sh).await.map_err(|e| format!("{e:?}"))? } else { vec![] };
        Ok((s, r, sh.next_u64()))
    };
    let futs: Vec<PartyFut<Out>> = vec![Box::pin(f0), Box::pin(f1)];
    let mut sched = Scheduler::new(Policy::Random { seed });
    let outs = run(&net, futs, &mut sched, 100_000_000);
    let mut res = vec![];
    for o in outs {
        res.push(match o {
            Outcome::Done(Ok((s, r, coin))) => json!({"st": "ok", "send": s.iter().map(|x| limbs(*x)).collect::<Vec<_>>(),
                                                      "recv": r.iter().map(|x| limbs(*x)).collect::<Vec<_>>(),
                                                      "coin": limbs(coin as u128)}),
            Outcome::Done(Err(e)) => json!({"st": format!("err:{e}"), "send": [], "recv": [], "coin": limbs(0)}),
            Outcome::Panic(m) => json!({"st": format!("panic:{m}"), "send": [], "recv": [], "coin": limbs(0)}),
            _ => json!({"st": "hang", "send": [], "recv": [], "coin": limbs(0)}),
        });
    }
    // message sizes per phase as seen on the wire (party 0's completed sends)
    let netb = net.borrow();
    let sizes: Vec<Value> = netb
        .log
        .iter()
        .filter(|e| e.ev == "e" && e.ok && matches!(e.d, crate::exec::Dir::S))
        .map(|e| json!([e.p, e.ph, e.len]))
        .collect();
    json!({"ev": "ot", "run": id, "m": m, "both": both, "choices": choices,
           "c": [c0.iter().map(|b| *b as u8).collect::<Vec<_>>(), c1.iter().map(|b| *b as u8).collect::<Vec<_>>()],
           "d": [d0.iter().map(|b| limbs(block_to_u128(*b))).collect::<Vec<_>>(),
                 d1.iter().map(|b| limbs(block_to_u128(*b))).collect::<Vec<_>>()],
           "res": res, "sizes": sizes})
    .to_string()
}

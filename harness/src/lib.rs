//! Driver and recorder for the TLA+-based verification of polytune.
//! Nothing in this crate judges a property: verdicts come from TLC.
pub mod adv;
pub mod alloc;
pub mod circ;
pub mod engine;
pub mod exec;
pub mod filebuf;
pub mod pre;
pub mod prims;
pub mod server;

#!/bin/bash
# For every fix commit recorded in known_findings.json: undo it in a scratch worktree (reverse diff of the commit) and
# run the property's quick check there (try_seed_iso.sh). Expected: exit 1 (a fixed entry suppresses nothing).
# The specification models the repaired tree, so drift lines are expected as well.
cd /verif
python3 - <<'PY' > work/revert-list.txt
import json
k=json.load(open('/verif/known_findings.json'))
seen=set()
for e in k['fixed']:
    key=(e['commit'], e['property'])
    if key in seen: continue
    seen.add(key); print(e['commit'], e['property'])
PY
: > work/revert-fixes.out
while read c p; do
  git -C /repo diff $c $c^ > work/revert-$c.diff
  extra=""
  # the repairs that changed the message flow need the matching specification of the unrepaired flow
  case $c in
    1fabb40) extra=work/revert-spec-1fabb40.diff;;
    b67fabf) extra=work/revert-spec-b67fabf.diff;;
  esac
  if [ -n "$extra" ] && [ -f "$extra" ]; then
    VERIF_COPY_PATCH=/verif/$extra selftest/try_seed_iso.sh work/revert-$c.diff $p | grep -E "rc=|APPLY" | tr '\n' ' ' >> work/revert-fixes.out
  else
    selftest/try_seed_iso.sh work/revert-$c.diff $p | grep -E "rc=|APPLY" | tr '\n' ' ' >> work/revert-fixes.out
  fi
  echo >> work/revert-fixes.out
done < work/revert-list.txt

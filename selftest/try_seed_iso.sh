#!/bin/sh
# usage: try_seed_iso.sh <seed dir name | path to a .diff> <prop>[,<prop>...] [tier]
# Like try_seed.sh, but without touching /repo: the change is applied in a scratch worktree of /repo's HEAD and a scratch
# copy of /verif (harness path dependencies redirected to that worktree) runs the check. Several can run in parallel, and
# checks running against /repo at the same time are not disturbed. Everything is removed afterwards.
name=$1; props=$(echo $2 | tr ',' ' '); tier=${3:-quick}; prop=$(echo $2 | tr ',' '_')
case "$name" in *.diff) patch=$(readlink -f $name); name=$(basename $name .diff);; *) patch=/verif/seeded/$name/patch.diff;; esac
W=/tmp/iso/$name-$prop
rm -rf $W; mkdir -p $W
git -C /repo worktree prune
git -C /repo worktree add --detach $W/repo HEAD >/dev/null 2>&1 || { echo "$name: worktree failed"; exit 3; }
git -C $W/repo apply --3way $patch 2>/dev/null || git -C $W/repo apply $patch || { echo "$name: APPLY FAILED"; git -C /repo worktree remove --force $W/repo; rm -rf $W; exit 3; }
rsync -a --exclude work --exclude .git --exclude evidence /verif/ $W/verif/
mkdir -p $W/verif/work $W/verif/evidence
# optional: a change to the machinery itself that goes with the change under test (e.g. the specification of a repair)
[ -n "$VERIF_COPY_PATCH" ] && ( cd $W/verif && patch -p1 -s < "$VERIF_COPY_PATCH" ) 
sed -i "s#\"/repo#\"$W/repo#g" $W/verif/harness/Cargo.toml
sed -i "s#\"/repo/Cargo.lock\"#\"$W/repo/Cargo.lock\"#" $W/verif/bin/vlib.py
rc=0
: > /verif/work/seed-$name-$prop.log
for q in $props; do
  ( cd $W/verif && bin/check $q --tier $tier ) >> /verif/work/seed-$name-$prop.log 2>&1
  r=$?; echo "== $q rc=$r" >> /verif/work/seed-$name-$prop.log; [ $r -gt $rc ] && rc=$r
done
mkdir -p /verif/work/replays-iso; cp $W/verif/work/replays/* /verif/work/replays-iso/ 2>/dev/null
git -C /repo worktree remove --force $W/repo; rm -rf $W
echo "$name $prop: rc=$rc $(grep -c '^VIOLATION' /verif/work/seed-$name-$prop.log) violation lines, $(grep -c '^SPEC-DRIFT' /verif/work/seed-$name-$prop.log) drift lines"
grep -E "^== |^VIOLATION|^SPEC-DRIFT|TOOL-ERROR" /verif/work/seed-$name-$prop.log | cut -c1-300 | head -8

#!/bin/sh
# usage: mkworktree.sh <dir>  -- scratch worktree of /repo HEAD with a warm target dir
set -e
d="$1"
case "$d" in /tmp/*) ;; *) echo "mkworktree.sh: give an absolute path under /tmp" >&2; exit 2;; esac
git -C /repo worktree add --detach "$d" HEAD >/dev/null 2>&1
cp -a /repo/target "$d/target" 2>/dev/null || true
echo "$d"

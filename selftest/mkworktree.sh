#!/bin/sh
# usage: mkworktree.sh <dir>  -- scratch worktree of /repo HEAD with a warm target dir
set -e
d="$1"
git -C /repo worktree add --detach "$d" HEAD >/dev/null 2>&1
cp -a /repo/target "$d/target" 2>/dev/null || true
echo "$d"

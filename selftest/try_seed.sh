#!/bin/sh
# usage: try_seed.sh <seed dir name> <prop> [tier]  -- apply seeded/<name>/patch.diff to /repo, run the check, revert
name=$1; prop=$2; tier=${3:-quick}
cd /verif
git -C /repo checkout HEAD -- .
git -C /repo apply --3way /verif/seeded/$name/patch.diff 2>/dev/null || git -C /repo apply /verif/seeded/$name/patch.diff || { echo "$name: APPLY FAILED"; exit 3; }
bin/check $prop --tier $tier > work/seed-$name-$prop.log 2>&1
rc=$?
git -C /repo checkout HEAD -- .
echo "$name $prop: rc=$rc $(grep -c '^VIOLATION' work/seed-$name-$prop.log) violation lines, $(grep -c '^SPEC-DRIFT' work/seed-$name-$prop.log) drift lines"
grep -E "^VIOLATION|^  C|^SPEC-DRIFT|TOOL-ERROR" work/seed-$name-$prop.log | cut -c1-300 | head -8

#!/bin/sh
# Apply each hand-written mutant to /repo, run the named check, expect exit 1, revert.
# usage: selftest/run_mutants.sh [pattern]
cd /verif
pat="${1:-}"
for d in selftest/mutants/*${pat}*.diff; do
  name=$(basename "$d" .diff)
  props=$(cat "selftest/mutants/$name.prop")
  git -C /repo checkout HEAD -- . ; git -C /repo apply "/verif/$d" || { echo "$name: APPLY FAILED"; continue; }
  for prop in $props; do
    bin/check "$prop" --tier quick > "work/selftest-$name-$prop.log" 2>&1
    rc=$?
    if [ $rc -eq 1 ]; then echo "$name $prop: DETECTED ($(grep -c '^VIOLATION' work/selftest-$name-$prop.log) violation lines)";
    else echo "$name $prop: MISSED rc=$rc"; fi
  done
  git -C /repo checkout HEAD -- .
done

#!/bin/sh
# Like run_mutants.sh, but through try_seed_iso.sh (scratch worktree + scratch copy of /verif; /repo is not touched).
cd /verif
pat="${1:-}"
for d in selftest/mutants/*${pat}*.diff; do
  name=$(basename "$d" .diff)
  props=$(cat "selftest/mutants/$name.prop" | tr ' ' ',')
  selftest/try_seed_iso.sh "$d" "$props" | grep -E "rc=|APPLY" | tr '\n' ' '
  echo
done

#!/bin/bash
# Confirm every seeded change in a scratch worktree: it compiles, the existing tests of the affected crates pass with it,
# its demonstration fails with it and passes without it. usage: confirm_seeds.sh [names...]; log: /verif/seeded/confirm.log
W=/tmp/seedconf
LOG=/verif/seeded/confirm.log
git -C /repo worktree remove --force $W 2>/dev/null; rm -rf $W
git -C /repo worktree add --detach $W HEAD >/dev/null 2>&1
cp -a /repo/target $W/target 2>/dev/null
cd $W
declare -A DEST=( [C01-a]=tests/seed_demo.rs [C03-a]=tests/seed_c03_demo.rs [C05-a]=tests/c05_demo.rs [C08-a]=tests/c08_demo.rs
 [C09-a]=tests/c09_demo.rs [C11-a]=tests/c11_demo.rs [C12-a]=tests/seed_c12_demo.rs [C18-a]=tests/c18_demo.rs
 [C13-a]=crates/polytune-server-core/tests/seed_c13_demo.rs [C14-a]=crates/polytune-server-core/tests/c14_dup_schedule.rs
 [C15-a]=crates/polytune-server-core/tests/c15_demo.rs [C16-a]=crates/polytune-server-core/tests/c16_demo.rs
 [C17-a]=crates/polytune-server-core/tests/c17_demo.rs [C10-a]=APPEND:src/mpc/faand.rs [C19-a]=MOD:src/utils/c19_demo.rs:src/utils.rs:c19_demo
 [C02-a]=tests/c02_demo.rs [C04-a]=tests/c04_demo.rs [C06-a]=tests/c06_mask_reuse.rs [C07-a]=tests/c07_seed_demo.rs
 [C13-b]=crates/polytune-server-core/tests/c13_demo.rs [C15-b]=crates/polytune-server-core/tests/seed_c15b_demo.rs
 [C17-b]=crates/polytune-server-core/tests/seed_c17b_demo.rs [C01-b]=tests/seed_c01b_demo.rs [C05-b]=tests/c05_b_demo.rs [C09-b]=tests/c09_demo.rs [C12-b]=tests/c12_demo.rs
 [C08-b]=tests/c08b_demo.rs [C19-b]=tests/c19_demo.rs [C03-b]=tests/seed_c03b_demo.rs [C10-b]=tests/seed_c10b.rs
 [C11-b]=tests/c11_demo.rs [C18-b]=tests/seed_c18b.rs [C14-b]=crates/polytune-server-core/tests/c14_b_demo.rs
 [C16-b]=crates/polytune-server-core/tests/c16_b_demo.rs
 [C02-b]=tests/seed_c02b_demo.rs [C06-b]=tests/c06b_demo.rs [C07-b]=tests/c07b_demo.rs [C20-b]=tests/c20_demo.rs
 [C13-c]=crates/polytune-server-core/tests/seed_c13c.rs [C15-c]=crates/polytune-server-core/tests/c15_cancel_executing.rs
 [C17-c]=crates/polytune-server-core/tests/c17_demo.rs [C12-c]=crates/polytune-server-core/tests/c12_slow_link.rs [C20-c]=tests/c20_demo.rs [C19-c]=tests/c19_demo.rs
 [C04-b]=tests/c04_b_demo.rs [C01-c]=tests/seed_c01c_demo.rs [C05-c]=tests/seed_c05c_demo.rs [C09-c]=tests/c09_demo.rs
 [C08-c]=tests/c08_demo.rs [C03-c]=tests/seed_c03_demo.rs [C10-c]=tests/seed_c10_demo.rs [C11-c]=tests/c11_demo.rs
 [C18-c]=tests/c18_demo.rs [C02-c]=tests/c02_demo.rs [C06-c]=tests/c06_demo.rs [C07-c]=tests/c07_ashare_demo.rs
 [C05-d]=tests/c05_demo.rs [C14-c]=crates/polytune-server-core/tests/c14_demo.rs [C16-c]=crates/polytune-server-core/tests/c16_demo.rs
 [C13-d]=crates/polytune-server-core/tests/c13_demo.rs [C15-d]=crates/polytune-server-core/tests/c15_demo.rs
 [C17-d]=crates/polytune-server-core/tests/c17_demo.rs
 [C01-d]=tests/seed_c01_d.rs [C09-d]=tests/c09_demo.rs [C12-d]=tests/c12_d_demo.rs [C19-d]=tests/c19_demo.rs [C04-c]=tests/seed_c04c_demo.rs
 [C08-d]=tests/c08_dvalue.rs [C10-d]=tests/c10d_demo.rs [C18-d]=tests/c18_demo.rs [C03-d]=tests/c03d_demo.rs [C11-d]=tests/c11_demo.rs
 [C02-d]=tests/seed_c02_demo.rs [C06-d]=tests/c06_demo.rs [C07-d]=tests/c07_demo.rs [C20-d]=tests/c20_demo.rs
 [C16-d]=crates/polytune-server-core/tests/c16_demo.rs
 [C13-e]=crates/polytune-server-core/tests/seed_c13e_demo.rs [C14-e]=crates/polytune-server-core/tests/seed_c14e.rs
 [C15-e]=crates/polytune-server-core/tests/c15_demo.rs [C17-e]=crates/polytune-server-core/tests/c17_demo.rs
 [C01-e]=tests/c01e_demo.rs [C05-e]=tests/c05_demo.rs [C09-e]=tests/c09_demo.rs [C12-e]=tests/c12e_demo.rs
 [C16-e]=crates/polytune-server-core/tests/c16_demo.rs [C19-e]=tests/seed_c19_demo.rs [C03-e]=tests/seed_c03e_demo.rs
 [C10-e]=MOD:src/mpc/seed_c10_demo.rs:src/mpc.rs:seed_c10_demo
 [C08-e]=tests/c08_demo.rs [C04-d]=tests/c04_kos_seed.rs [C02-e]=tests/seed_c02_demo.rs [C11-e]=tests/c11_demo.rs
 [C18-e]=tests/c18_demo.rs [C20-e]=tests/c20_demo.rs [C07-e]=tests/c07e_demo.rs [C06-e]=tests/c06_demo.rs
 [C20-a]=MOD:src/transpose/seed_demo.rs:src/transpose.rs:seed_demo )
names=${@:-$(ls -d /verif/seeded/*/ | xargs -n1 basename)}
for s in $names; do
  d=/verif/seeded/$s; dest=${DEST[$s]}
  [ -z "$dest" ] && { echo "$s: no demo mapping" >> $LOG; continue; }
  git checkout -q HEAD -- . ; git clean -fdq -e target
  server=0; case $dest in crates/*) server=1;; esac
  place() {
    case $dest in
      APPEND:*) cat $d/demo.rs >> ${dest#APPEND:};;
      MOD:*) IFS=: read -r _ f parent m <<< "$dest"; mkdir -p $(dirname $f); cp $d/demo.rs $f; printf '\n#[cfg(test)]\nmod %s;\n' $m >> $parent;;
      *) mkdir -p $(dirname $dest); cp $d/demo.rs $dest;;
    esac
  }
  demo() {
    case $dest in
      APPEND:*) cargo test --offline -p polytune --lib c10_demo 2>&1 | tail -3 | tr '\n' ' ';;
      MOD:*) IFS=: read -r _ f parent m <<< "$dest"; cargo test --offline -p polytune --lib $m 2>&1 | grep -E "^test result|error\[" | tr '\n' ' ';;
      crates/*) t=$(basename $dest .rs); cargo test --offline -p polytune-server-core --test $t 2>&1 | grep -E "^test result|error\[" | tr '\n' ' ';;
      *) t=$(basename $dest .rs); RUSTFLAGS="$DEMOFLAGS" cargo test --offline -p polytune --features __bench --test $t 2>&1 | grep -E "^test result|error\[" | tr '\n' ' ';;
    esac
  }
  # (C20-b's demonstration drives the guarded verification wrappers)
  if [ $s = C20-b ] || [ $s = C20-c ] || [ $s = C19-c ] || [ $s = C10-d ] || [ $s = C03-d ] || [ $s = C06-d ] || [ $s = C20-d ] || [ $s = C19-e ] || [ $s = C02-e ] || [ $s = C20-e ]; then DEMOFLAGS="--cfg polytune_verif --check-cfg cfg(polytune_verif)"; else DEMOFLAGS=""; fi
  # with the change
  git apply $d/patch.diff || { echo "$s: PATCH DOES NOT APPLY" >> $LOG; continue; }
  if [ $server = 1 ]; then
    ex=$(cargo nextest run --offline -p polytune-server-core -p polytune-http-server --test-threads 8 2>&1 | grep -E "Summary|error" | tr '\n' ' ')
  else
    ex=$(cargo nextest run --offline -p polytune --test-threads 8 -E 'not test(eval_mixed_circuits)' 2>&1 | grep -E "Summary|error" | tr '\n' ' ')
  fi
  place; with=$(demo)
  # without the change
  git checkout -q HEAD -- . ; git clean -fdq -e target
  place; without=$(demo)
  echo "$s | existing tests with change: $ex | demo WITH change: $with | demo WITHOUT change: $without" >> $LOG
done
cd /; git -C /repo worktree remove --force $W; rm -rf $W
echo "confirm done" >> $LOG

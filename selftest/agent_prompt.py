#!/usr/bin/env python3
"""Print the prompt given to an independent sub-agent asked to seed a property-breaking change.
usage: agent_prompt.py <property id> <worktree dir> [variant hint]"""
import json, sys
pid, wt = sys.argv[1], sys.argv[2]
hint = sys.argv[3] if len(sys.argv) > 3 else ""
p = next(json.loads(l) for l in open("/verif/properties.jsonl") if json.loads(l)["id"] == pid)
print(f"""You are helping to evaluate a verification framework for the Rust project sine-fdn/polytune (maliciously-secure
multi-party computation, WRK17 authenticated garbling, with a server core crate). You have your own scratch git worktree
of the project at {wt} (a warm cargo target dir is already in {wt}/target). Work ONLY inside {wt}; never touch /repo or /verif
and do not read anything under /verif. There is no network: always pass --offline to cargo.

Here is a semantic property that the project is supposed to satisfy:

  id: {p['id']}
  title: {p['title']}
  statement: {p['statement']}
  quantified over: {p['quantifier']['text']}
  relevant files: {', '.join(p['anchors']['files'])}

Your task: write ONE realistic change to the project's source (the kind of slip or "optimisation" a maintainer could plausibly
commit) that BREAKS this property while the project still compiles and the existing test suite still passes. The change must
need something specific in order to manifest -- a particular interleaving, a fault or crash at a particular point, a multi-step
sequence of operations, an unusual input / configuration (e.g. a non-default evaluator, a second batch, a particular party
count), or two cooperating sites that each look fine alone. Never use `git stash` (the stash is shared between worktrees; use `git apply -R SEED/patch.diff` and `git apply SEED/patch.diff` to switch). Do NOT produce a change that ordinary use or the existing tests
would expose at once. Keep it small (typically 1-15 changed lines), do not touch tests, and do not add cfg flags or features.
{hint}

Deliver, inside {wt}:
 1. the change itself applied to the working tree (uncommitted), and a copy of it as {wt}/SEED/patch.diff
    (produced with `git -C {wt} diff -- . ':!SEED' > {wt}/SEED/patch.diff`; it must apply to a clean checkout with `git apply`);
 2. a demonstration under {wt}/SEED/ -- a Rust integration test file (e.g. SEED/demo.rs, to be copied to tests/ or to the
    relevant crate's tests/ dir; say where) or a small program -- that FAILS with your change and PASSES without it.
    Actually run it both ways and report the commands and the observed outcomes;
 3. {wt}/SEED/meta.json with keys: property, summary (what was changed), needs (what is needed for the breakage to manifest),
    demo (how to run the demonstration, exact commands), tests_run (which existing tests you ran and their result).

Confirm that the existing tests still pass with your change. The full suite is slow (5+ minutes); use
`cargo nextest run --offline -p <crate> --test-threads 8` (or `cargo test --offline -p <crate>`) on the crates your change can
affect (the root crate is `polytune`; server crates are `polytune-server-core`, `polytune-http-server`). The following tests are
known to fail even without any change and can be ignored: polytune-api-integration::cli::simulate,
polytune-sql-integration::cli::simulate, polytune::protocol::eval_garble_prg_3pc, polytune::protocol::eval_mixed_circuits;
polytune-http-multi-server::cli::simulate is flaky.

Finish with a short report: the diff, why it breaks the property, what it needs to manifest, and the demo outcomes with and
without the change. Do not remove the worktree; leave the change applied.""")

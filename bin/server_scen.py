"""Scenario descriptions shared by the TLC model (MC_Server) and the replay driver."""
import json

FIX_NONE = {"initChannelAfterCheck": False, "cancelHandshake": False, "msgBoundsCheck": False,
            "runFailureStops": False, "constsFailureStops": False, "cancelAbortsConstsTask": False}


def policy(leader=0, prog="A", out=True, consts=True, typed=True):
    return {"leader": leader, "prog": prog, "out": out, "consts": consts, "typed": typed}


def scenario(n=2, comps=1, leader=0, out=None, consts=None, conc=None, cancel=0, rpcfail=0, stray=0,
             fix=None, record=False, pol=None, slow=None, prog="A", late=None):
    out = out if out is not None else [True] * n
    consts = consts if consts is not None else [True] * n
    if pol is None:
        leaders = leader if isinstance(leader, list) else [leader] * comps
        pol = [[policy(leaders[c], prog, out[p], consts[p], True) for p in range(n)] for c in range(comps)]
    sc = {"n": n, "conc": conc or [1] * n, "record": record, "pol": pol,
          "faults": {"cancel": cancel, "rpcfail": rpcfail, "stray": stray},
          "fix": dict(fix or FIX_NONE)}
    if late:
        sc["late"] = list(late)     # parties scheduled only when nothing else can move (validate arrives first)
    if slow:
        sc["slow"] = list(slow)     # [from, to]: MPC messages of this link are delivered as late as possible
    return sc


if __name__ == "__main__":
    import sys
    print(json.dumps(scenario()))

"""Glue shared by all checks: build the harness against /repo's working tree,
drive it, hand its recordings to TLC, collect TLC's verdicts, write evidence.

Exit codes of a check: 0 = property held on everything explored,
1 = violation (a `VIOLATION property=<id> replay=<path>` line was printed),
2 = tool error / timeout / spec bug (no verdict).
Verdict discipline (DESIGN 3.5): only a property monitor (spec/Mon_*.tla)
rejecting a run of the REAL code produces a VIOLATION line.
"""
import fcntl
import hashlib
import json
import os
import random
import re
import shutil
import subprocess
import sys
import time

# the directory this machinery lives in (/verif, or a snapshot of it under `vp run`)
ROOT = os.path.dirname(os.path.dirname(os.path.abspath(__file__)))
SPEC = ROOT + "/spec"
HARNESS = ROOT + "/harness"
WORK = ROOT + "/work"
PT = HARNESS + "/target/release/pt"
EVID = ROOT + "/evidence"
REPLAYS = WORK + "/replays"
KNOWN = ROOT + "/known_findings.json"

REAL_CONSTS = {"RHO": 40, "SSP": 40, "BFLOOR": 1000, "BMAX": 5, "BT4": 3100, "BT3": 280000}


class ToolError(Exception):
    pass


def log(*a):
    print(*a, file=sys.stderr, flush=True)


def seed_from_env():
    try:
        return int(os.environ.get("VERIF_SEED", "1"))
    except ValueError:
        return 1


def ensure_dirs():
    for d in (WORK, EVID, REPLAYS, WORK + "/tmp"):
        os.makedirs(d, exist_ok=True)


def build():
    """(Re)build the harness; path dependencies make cargo pick up /repo's
    current working tree. Serialised by a lock file."""
    ensure_dirs()
    with open(WORK + "/build.lock", "w") as lk:
        fcntl.flock(lk, fcntl.LOCK_EX)
        if not os.path.exists(HARNESS + "/Cargo.lock"):
            shutil.copy("/repo/Cargo.lock", HARNESS + "/Cargo.lock")
        t = time.time()
        p = subprocess.run(
            ["cargo", "build", "--release", "--offline"],
            cwd=HARNESS, stdout=subprocess.PIPE, stderr=subprocess.STDOUT, text=True,
            env=dict(os.environ, CARGO_NET_OFFLINE="true"))
        if p.returncode != 0:
            log(p.stdout[-4000:])
            raise ToolError("harness build failed")
        log(f"[build] {time.time()-t:.1f}s")


def workdir(name):
    d = f"{WORK}/{name}-{os.getpid()}"
    shutil.rmtree(d, ignore_errors=True)
    os.makedirs(d)
    return d


def run_pt(cmd, jobs, wd, name="jobs", threads=16, timeout=3600, env=None):
    """Run harness command `cmd` on a list of job dicts; returns the path of
    the ndjson output and the parsed lines."""
    jp = f"{wd}/{name}.in.ndjson"
    op = f"{wd}/{name}.out.ndjson"
    with open(jp, "w") as f:
        for j in jobs:
            f.write(json.dumps(j) + "\n")
    e = dict(os.environ)
    e["PT_WORK"] = WORK + "/tmp"
    if env:
        e.update(env)
    t = time.time()
    p = subprocess.run([PT, cmd, jp, op, str(threads)], stdout=subprocess.PIPE,
                       stderr=subprocess.STDOUT, text=True, timeout=timeout, env=e)
    if p.returncode != 0:
        log(p.stdout[-4000:])
        raise ToolError(f"pt {cmd} failed with {p.returncode}")
    log(f"[pt {cmd}] {len(jobs)} jobs {time.time()-t:.1f}s")
    return op


def read_ndjson(path):
    with open(path) as f:
        return [json.loads(l) for l in f if l.strip()]


def read_ndjson_filtered(path, needle):
    with open(path) as f:
        return [json.loads(l) for l in f if needle in l]


def split_runs(lines):
    """Group engine output lines by run (cfg .. end)."""
    runs, cur = [], None
    for r in lines:
        if r["ev"] == "cfg":
            cur = {"cfg": r, "events": [], "res": [], "end": None}
            runs.append(cur)
        elif r["ev"] in ("s", "e"):
            cur["events"].append(r)
        elif r["ev"] == "res":
            cur["res"].append(r)
        elif r["ev"] == "end":
            cur["end"] = r
    return runs


def write_ndjson(path, lines):
    with open(path, "w") as f:
        for l in lines:
            f.write(json.dumps(l) + "\n")


def write_cfg(path, spec="Spec", constants=None, invariants=(), properties=(),
              postcondition=None, deadlock=False, constraint=None, view=None, symmetry=None):
    with open(path, "w") as f:
        f.write(f"SPECIFICATION {spec}\n")
        if constants:
            f.write("CONSTANTS\n")
            for k, v in constants.items():
                f.write(f"  {k} = {v}\n")
        for i in invariants:
            f.write(f"INVARIANT {i}\n")
        for p in properties:
            f.write(f"PROPERTY {p}\n")
        if postcondition:
            f.write(f"POSTCONDITION {postcondition}\n")
        if constraint:
            f.write(f"CONSTRAINT {constraint}\n")
        if view:
            f.write(f"VIEW {view}\n")
        if symmetry:
            f.write(f"SYMMETRY {symmetry}\n")
        f.write(f"CHECK_DEADLOCK {'TRUE' if deadlock else 'FALSE'}\n")


_TLC_STATS = re.compile(r"(\d[\d,]*) states generated, (\d[\d,]*) distinct states found")


def run_tlc(module, cfg, wd, env=None, workers=1, timeout=1800, simulate=None,
            depth_first=False, xmx=None, coverage=False, extra=()):
    """Run TLC; returns dict(out, rc, generated, distinct, ok, error)."""
    md = f"{wd}/md-{module}-{int(time.time()*1000)%100000000}"
    e = dict(os.environ)
    jto = f"-Xss1g -Djava.io.tmpdir={wd}"
    if depth_first:
        jto += " -Dtlc2.tool.queue.IStateQueue=StateDeque"
    if xmx:
        jto += f" -Xmx{xmx}"
    e["JAVA_TOOL_OPTIONS"] = jto
    if env:
        e.update({k: str(v) for k, v in env.items()})
    # (-checkpoint 0: the depth-first queue cannot be checkpointed, and TLC would try after 30 minutes)
    cmd = ["timeout", str(timeout), "tlc", "-workers", str(workers), "-metadir", md,
           "-cleanup", "-noGenerateSpecTE", "-checkpoint", "0"]
    if simulate:
        cmd += ["-simulate", simulate]
    if coverage:
        cmd += ["-coverage", "1"]
    cmd += list(extra)
    cmd += ["-config", cfg, f"{SPEC}/{module}.tla"]
    t = time.time()
    p = subprocess.run(cmd, stdout=subprocess.PIPE, stderr=subprocess.STDOUT, text=True, env=e, cwd=wd)
    out = p.stdout
    shutil.rmtree(md, ignore_errors=True)
    gen = dist = 0
    for m in _TLC_STATS.finditer(out):
        gen = int(m.group(1).replace(",", ""))
        dist = int(m.group(2).replace(",", ""))
    res = {"out": out, "rc": p.returncode, "generated": gen, "distinct": dist,
           "wall": time.time() - t,
           "ok": "No error has been found" in out or (simulate is not None and p.returncode in (0,) ),
           "timeout": p.returncode == 124}
    log(f"[tlc {module}] rc={p.returncode} states={dist} {res['wall']:.1f}s")
    return res


def tlc_trace(module, cfg, trace, wd, env=None, timeout=1800, name=None, depth_first=True):
    """Trace validation / monitor run. The spec writes its result as JSON to
    IOEnv.OUT. Raises ToolError if TLC did not produce it."""
    outp = f"{wd}/{name or module}.result.json"
    if os.path.exists(outp):
        os.remove(outp)
    e = {"TRACE": trace, "OUT": outp}
    # TLC's breadth-first search refuses behaviours of 65536 or more states; a single-pass monitor over a longer trace
    # has to run with the depth-first queue (no such limit: Mon_C09 runs over 460 000 records with it)
    if not depth_first:
        with open(trace, "rb") as f:
            if sum(1 for _ in f) >= 60000:
                depth_first = True
    if env:
        e.update(env)
    r = run_tlc(module, cfg, wd, env=e, workers=1, timeout=timeout, depth_first=depth_first)
    if not os.path.exists(outp):
        # keep what TLC said: the head names the error, the tail (a state dump) can be huge
        t = strip_tlc(r["out"])
        with open(f"{WORK}/tlc-{name or module}-failed.log", "w") as f:
            f.write(t[:20000] + "\n...\n" + t[-5000:])
        errs = [ln for ln in t.splitlines() if re.match(r"^(Error|\s*Caused by|java\.|Exception)", ln)]
        log("\n".join(errs[:12]) or t[-3000:])
        raise ToolError(f"TLC produced no result for {module}" + (": " + errs[0][:300] if errs else ""))
    with open(outp) as f:
        res = json.load(f)
    res["_tlc"] = r
    return res


def tlc_trace_chunked(module, cfg, trace, wd, limit=120_000_000, parallel=3, **kw):
    """Like tlc_trace for a monitor that judges every run (cfg .. end) on its own: the trace file is cut at run boundaries
    into pieces of at most `limit` bytes (TLC loads a whole trace file into memory) and the integer counters and the
    `viol` / `drift` lists of the pieces are merged."""
    from concurrent.futures import ThreadPoolExecutor
    if os.path.getsize(trace) <= limit:
        return tlc_trace(module, cfg, trace, wd, **kw)
    parts, size, k = [], 0, 0
    f_out = None
    with open(trace) as f:
        for line in f:
            if f_out is None or (size > limit and '"ev":"cfg"' in line):
                if f_out:
                    f_out.close()
                pth = f"{trace}.part{k}"
                k += 1
                parts.append(pth)
                f_out = open(pth, "w")
                size = 0
            f_out.write(line)
            size += len(line)
    if f_out:
        f_out.close()
    name = kw.pop("name", None) or module

    def one(i):
        r = tlc_trace(module, cfg, parts[i], wd, name=f"{name}.{i}", **kw)
        os.remove(parts[i])
        return r
    with ThreadPoolExecutor(parallel) as ex:
        results = list(ex.map(one, range(len(parts))))
    total = {"pieces": len(parts)}
    for r in results:
        for key, val in r.items():
            if isinstance(val, bool) or key.startswith("_"):
                continue
            if isinstance(val, int):
                total[key] = total.get(key, 0) + val
            elif isinstance(val, list):
                total.setdefault(key, []).extend(val)
    return total


def strip_tlc(out):
    return "\n".join(l for l in out.splitlines()
                     if not re.match(r"^(Linting|Semantic processing|Parsing file|Picked up)", l))


def std_cfg(wd, name, **kw):
    p = f"{wd}/{name}.cfg"
    write_cfg(p, **kw)
    return p


MON_CFG = SPEC + "/Mon.cfg"


def regression_jobs(prop, kind):
    """The recorded failing runs of the defects repaired so far for `prop` (known_findings.json, entries `fixed:`): they
    are replayed in every run of the check, so that a repaired defect that returns is reported again by the very history
    that exposed it."""
    out = []
    try:
        with open(ROOT + "/known_findings.json") as f:
            kf = json.load(f)
    except OSError:
        return out
    seen = set()
    for e in kf.get("fixed", []):
        if e.get("property") != prop or e.get("replay") in seen:
            continue
        seen.add(e.get("replay"))
        try:
            with open(ROOT + "/" + e["replay"]) as f:
                rp = json.load(f)["replay"]
        except (OSError, KeyError, ValueError):
            continue
        if rp.get("kind") == kind and "job" in rp:
            j = dict(rp["job"])
            j["id"] = f"regress.{e['commit']}.{len(out)}"
            out.append(j)
    return out

# ----------------------------------------------------------------------------
# known findings


def load_known():
    if not os.path.exists(KNOWN):
        return {"findings": [], "fixed": []}
    with open(KNOWN) as f:
        return json.load(f)


def known_match(prop, key):
    """A finding is identified by (property, key) where key names the specific
    failing scenario."""
    for f in load_known().get("findings", []):
        if f["property"] == prop and f["key"] == key:
            return f
    return None


# ----------------------------------------------------------------------------
# verdicts and evidence


class Verdict:
    def __init__(self, prop, tier, level):
        self.prop = prop
        self.tier = tier
        self.level = level
        self.seed = seed_from_env()
        self.t0 = time.time()
        self.violations = []
        self.known_hits = []
        self.drift = []
        self.coverage = {}
        self.assumptions = []

    def violation(self, key, replay_obj, what):
        """Record a property violation observed on the real code."""
        kf = known_match(self.prop, key)
        if kf is not None:
            if key not in [k for k, _ in self.known_hits]:
                self.known_hits.append((key, kf.get("what", what)))
            return
        ensure_dirs()
        h = hashlib.sha1(json.dumps(replay_obj, sort_keys=True).encode()).hexdigest()[:12]
        path = f"{REPLAYS}/{self.prop}-{h}.json"
        with open(path, "w") as f:
            json.dump({"property": self.prop, "key": key, "what": what, "replay": replay_obj}, f, indent=1)
        self.violations.append((key, path, what))

    def spec_drift(self, what):
        self.drift.append(what)

    def finish(self):
        ensure_dirs()
        cov = dict(self.coverage)
        if self.drift:
            cov["spec_drift"] = self.drift[:5]
        ev = {
            "property_id": self.prop,
            "tier": self.tier,
            "seed": self.seed,
            "level": self.level,
            "coverage": cov,
            "assumptions": self.assumptions,
            "wall_s": round(time.time() - self.t0, 2),
            "violations": len(self.violations),
        }
        with open(f"{EVID}/{self.prop}.json", "w") as f:
            json.dump(ev, f, indent=1)
        for key, what in self.known_hits:
            print(f"KNOWN-FINDING: property={self.prop} {key}: {what}")
        for d in self.drift[:5]:
            print(f"SPEC-DRIFT property={self.prop} {d}")
        seen = set()
        for key, path, what in self.violations:
            if key in seen:
                continue
            seen.add(key)
            print(f"VIOLATION property={self.prop} replay={path}")
            print(f"  {key}: {what}")
        sys.stdout.flush()
        return 1 if self.violations else 0


def rng(seed, salt):
    return random.Random(f"{seed}-{salt}")

"""Job generators for runs of the real engine (honest configurations)."""
import itertools
import random


def inst(op, a, b, out):
    return {"op": op, "a": a, "b": b, "out": out}


def gen_circuit(rng, n, max_inputs=2, gates=6, extra_regs=2, outputs=2, shuffle=False,
                zero_input_party=False):
    """Random valid register circuit: Input instructions first (index =
    register), then gates reading only written registers and writing ANY
    register (inputs and intermediates get overwritten: register reuse),
    x op x allowed, outputs with repetition (may be input registers)."""
    ir = [rng.randint(0 if zero_input_party else 1, max_inputs) for _ in range(n)]
    if zero_input_party and n > 1:
        ir[rng.randrange(n)] = 0
    if all(c == 0 for c in ir):
        ir[rng.randrange(n)] = 1
    pairs = [(p, i) for p in range(n) for i in range(ir[p])]
    if shuffle:
        rng.shuffle(pairs)
    ni = len(pairs)
    mr = ni + extra_regs
    insts = [inst("I", p, i, k) for k, (p, i) in enumerate(pairs)]
    written = list(range(ni))
    ands = 0
    for _ in range(gates):
        a = rng.choice(written)
        b = a if rng.randrange(6) == 0 else rng.choice(written)
        out = rng.randrange(mr)
        kind = rng.randrange(10)
        if kind < 4:
            op = "A"
            ands += 1
        elif kind < 7:
            op = "X"
        else:
            op = "N"
        insts.append(inst(op, a, 0 if op == "N" else b, out))
        if out not in written:
            written.append(out)
    outs = [rng.choice(written) for _ in range(max(1, outputs))]
    return {"input_regs": ir, "insts": insts, "max_reg": mr, "output_regs": outs, "and_ops": ands}


def and_chain(n, ands, with_not=True):
    """Exactly `ands` AND gates: acc = (acc AND x_k) XOR x_{k+1}, two scratch
    registers reused throughout; outputs duplicated and include an input."""
    insts = [inst("I", p, 0, p) for p in range(n)]
    acc, tmp = n, n + 1
    insts.append(inst("X", 0, 1, acc))
    for k in range(ands):
        insts.append(inst("A", acc, k % n, tmp))
        insts.append(inst("X", tmp, (k + 1) % n, acc))
        if with_not and k % 7 == 3:
            insts.append(inst("N", acc, 0, acc))
    return {"input_regs": [1] * n, "insts": insts, "max_reg": n + 2,
            "output_regs": [acc, 0, acc], "and_ops": ands}


def wide_circuit(n, regs=1300):
    """One AND gate followed by a chain of XORs, every result in a fresh register: more than 1024 registers."""
    insts = [inst("I", p, 0, p) for p in range(n)]
    r = n
    insts.append(inst("A", 0, 1, r))
    for k in range(regs):
        insts.append(inst("X", r, k % n, r + 1))
        r += 1
    return {"input_regs": [1] * n, "insts": insts, "max_reg": r + 1, "output_regs": [r, n], "and_ops": 1}


def many_inputs(n, ir):
    """Parties with MANY input bits (counts that cross the 8-bit and 128-bit packing boundaries), loaded in a
    scrambled order; the result folds every input bit in (XOR), with an AND every 16 bits so that a misplaced
    bit changes the outputs."""
    pairs = [(p, i) for p in range(n) for i in range(ir[p])]
    pairs = pairs[1::2] + pairs[0::2][::-1]
    insts = [inst("I", p, i, k) for k, (p, i) in enumerate(pairs)]
    ni = len(pairs)
    acc, tmp = ni, ni + 1
    insts.append(inst("X", 0, 1, acc))
    ands = 0
    for k in range(2, ni):
        if k % 16 == 5:
            insts.append(inst("A", acc, k, tmp))
            insts.append(inst("X", tmp, k - 1, acc))
            ands += 1
        else:
            insts.append(inst("X", acc, k, acc))
    return {"input_regs": ir, "insts": insts, "max_reg": ni + 2, "output_regs": [acc, ni - 1, 0], "and_ops": ands}


def fixed_small(n):
    """A few hand-written corner circuits for n parties."""
    cs = []
    # outputs that are inputs, duplicated outputs, no AND at all
    insts = [inst("I", p, 0, p) for p in range(n)]
    cs.append({"input_regs": [1] * n, "insts": insts + [inst("X", 0, 1, n)], "max_reg": n + 1,
               "output_regs": [0, n, n, 1], "and_ops": 0})
    # x AND x, x XOR x, NOT chain, overwriting an input register
    cs.append({"input_regs": [1] * n,
               "insts": insts + [inst("A", 0, 0, n), inst("X", 1, 1, n + 1), inst("N", n, 0, n),
                                 inst("N", n, 0, n), inst("N", n + 1, 0, 0), inst("A", 0, n, 1)],
               "max_reg": n + 2, "output_regs": [1, 0, n], "and_ops": 2})
    # a party without inputs (the last one)
    ir = [2] + [1] * (n - 2) + [0]
    pairs = [(p, i) for p in range(n) for i in range(ir[p])]
    ii = [inst("I", p, i, k) for k, (p, i) in enumerate(pairs)]
    k = len(ii)
    cs.append({"input_regs": ir, "insts": ii + [inst("A", 0, 1, k), inst("N", k, 0, k)],
               "max_reg": k + 1, "output_regs": [k], "and_ops": 1})
    return cs


def rand_inputs(rng, circ):
    return [[rng.random() < 0.5 for _ in range(c)] for c in circ["input_regs"]]


def nonempty_subsets(n):
    for k in range(1, n + 1):
        for s in itertools.combinations(range(n), k):
            yield list(s)


POLICIES = ["Random", "Newest", "Oldest", "RoundRobin", "Starve", "PreferRecv", "PreferSend"]


def policy(rng, n, kind=None):
    kind = kind or rng.choice(POLICIES)
    s = rng.randrange(1 << 30)
    if kind == "Random":
        return {"kind": "Random", "seed": s}
    if kind == "Starve":
        return {"kind": "Starve", "victim": rng.randrange(n), "seed": s}
    if kind in ("PreferRecv", "PreferSend"):
        return {"kind": kind, "seed": s}
    return {"kind": kind}


def job(jid, circ, inputs, pe, po, tmp=None, cap=1, pol=None, events=True, tag=None, **kw):
    j = {"id": jid, "circuit": circ, "inputs": inputs, "p_eval": pe, "p_out": po,
         "tmp": tmp or [False] * len(circ["input_regs"]), "cap": cap,
         "policy": pol or {"kind": "Random", "seed": 0}, "events": events,
         "tag": tag if tag is not None else {"grp": jid}}
    j.update(kw)
    return j


def honest_suite(seed, tier):
    """Configurations for C01/C05/C09/C19(engine clause): a list of groups;
    each group is a list of jobs sharing one PUBLIC configuration (circuit,
    n, p_eval, p_out) but differing in inputs, coins, tmp_dir choices,
    channel capacity and schedule."""
    rng = random.Random(f"honest-{seed}")
    quick = tier == "quick"
    groups = []
    K = 3 if quick else 8

    def add_group(name, circ, pe, po, mixed=False):
        n = len(circ["input_regs"])
        g = []
        # per-party storage choice: all in memory, all on file, both genuinely
        # mixed patterns, then random ones
        pats = [[False] * n, [True] * n, [i % 2 == 0 for i in range(n)], [i % 2 == 1 for i in range(n)]]
        for k in range(max(K, 4) if mixed else K):
            tmp = pats[k] if k < 4 else [rng.random() < 0.5 for _ in range(n)]
            if not mixed and k == 2:
                tmp = pats[2 + rng.randrange(2)]
            g.append(job(f"{name}.{k}", circ, rand_inputs(rng, circ), pe, po, tmp=tmp,
                         cap=rng.choice([1, 1, 2, 0]), pol=policy(rng, n),
                         tag={"grp": name}))
        groups.append(g)

    # n = 2, 3: every evaluator, every non-empty output set, corner circuits
    for n in (2, 3):
        circs = fixed_small(n) + [gen_circuit(rng, n, gates=rng.randint(3, 9), shuffle=(i % 2 == 1),
                                              zero_input_party=(i % 3 == 2))
                                  for i in range(2 if quick else 8)]
        combos = [(pe, po) for pe in range(n) for po in nonempty_subsets(n)]
        if quick and n == 3:
            combos = rng.sample(combos, 7)
        for ci, (pe, po) in enumerate(combos):
            circ = circs[ci % len(circs)] if quick else None
            for c in ([circ] if quick else rng.sample(circs, 3)):
                add_group(f"n{n}.pe{pe}.po{''.join(map(str, po))}.c{circs.index(c)}", c, pe, po)
    # n = 4, 5: sampled
    for n in (4, 5):
        for i in range(2 if quick else (10 if n == 4 else 5)):
            circ = rng.choice(fixed_small(n) + [gen_circuit(rng, n, gates=rng.randint(2, 7))])
            pe = rng.randrange(n)
            po = rng.choice(list(nonempty_subsets(n)))
            add_group(f"n{n}.s{i}", circ, pe, po)
    # AND counts around the batch boundary (second batch of share generation,
    # AND-share chunking, garbled-gate streaming)
    counts = [0, 1, 999, 1000, 1001] if quick else [0, 1, 999, 1000, 1001, 2001, 9001]
    for a in counts:
        n = 2 if a > 1001 or quick else rng.choice([2, 3])
        pe = rng.randrange(n)
        po = rng.choice(list(nonempty_subsets(n)))
        add_group(f"ands{a}.n{n}", and_chain(n, a), pe, po, mixed=(a >= 1000))
    # the Input instructions of a party need not come in the order of its input bits
    for n in (2, 3):
        ii = [inst("I", 0, 1, 0), inst("I", 1, 0, 1), inst("I", 0, 0, 2)] + [inst("I", p, 0, p + 1) for p in range(2, n)]
        k = len(ii)
        circ = {"input_regs": [2] + [1] * (n - 1), "insts": ii + [inst("A", 0, 1, k), inst("X", k, 2, k + 1)],
                "max_reg": k + 2, "output_regs": [k + 1, 0], "and_ops": 1}
        add_group(f"inorder.n{n}", circ, n - 1, [0, n - 1])
    # parties with many input bits (9, 17, 130: across the byte and block boundaries of packed bit vectors)
    for n, ir in ((2, [130, 9]), (3, [17, 1, 64])):
        add_group(f"manyin.n{n}", many_inputs(n, ir), n - 1, [0, n - 1])
    # a WIDE circuit (more than 1024 registers, the per-register vectors of the online phase get long) with every party an
    # output party, also on 1-slot channels
    for n in (2, 3) if not quick else (2,):
        wide = wide_circuit(n)
        g = []
        for k, cap in enumerate([1, 1, 2, 0]):
            g.append(job(f"wide.n{n}.{k}", wide, rand_inputs(rng, wide), k % n, list(range(n)), cap=cap, pol=policy(rng, n),
                         tag={"grp": f"wide.n{n}.pe{k % n}"}))
        groups.append(g)
    if not quick:
        # (distinct name: the loop above may already have produced a group "ands1001.n3")
        add_group("ands1001.n3.pe2", and_chain(3, 1001), 2, [0, 1], mixed=True)
    ids = [j["id"] for g in groups for j in g]
    assert len(ids) == len(set(ids)), "duplicate job ids"
    return groups

"""C13 - C17: the server core.  ServerCore.tla is explored exhaustively by
TLC (MC_Server); TLC behaviours are replayed as gate-release scripts on the
real PolicyState actors, seeded random gate schedules add more runs; every
run's log is validated against ServerCore (Trace_Server, detailed: drift
only) and judged by the property monitors of Mon_Server (verdict)."""
import json
import os
import random
import shutil

import server_scen as S
import vlib
from vlib import Verdict, log

FIXES_FILE = vlib.SPEC + "/fixes.json"

MC_INVS = {
    "C13": ["PermitAccounting", "AtMostOneOutput", "NoOutputWithoutDestination", "C13Safety", "BudgetRestored"],
    "C14": ["NoPanic", "StraysRejected", "C14Undisturbed", "PermitAccounting"],
    "C15": ["C15Stopped", "C15OneNotification", "C15NothingAfter", "C15PermitBack", "PermitAccounting"],
    "C16": ["C16NoMpc", "C16NoOkOutput", "C16Rejected", "PermitAccounting"],
    "C17": ["PermitAccounting", "ConcurrencyBound", "BudgetRestored", "C17CallerEnds", "C17TaskEndEnds"],
}


def fixes():
    with open(FIXES_FILE) as f:
        return json.load(f)


def scen(**kw):
    s = S.scenario(**kw)
    s["fix"] = fixes()
    return s


def mc_cfg(wd, name, invs, props=(), spec="MCSpec"):
    p = f"{wd}/{name}.cfg"
    with open(p, "w") as f:
        f.write(f"SPECIFICATION {spec}\nCONSTANTS\n  N <- MCN\n  NC <- MCNC\n  Conc <- MCConc\n  Pol <- MCPol\n"
                "  Faults <- MCFaults\n  FIX <- MCFIX\n")
        for i in invs:
            f.write(f"INVARIANT {i}\n")
        for q in props:
            f.write(f"PROPERTY {q}\n")
        if not props:
            f.write("VIEW mcview\n")
        f.write("CHECK_DEADLOCK FALSE\n")
    return p


def run_mc(wd, name, sc, invs, props=(), spec="MCSpec", workers=8, timeout=1500, simulate=None, extra=()):
    sp = f"{wd}/{name}.scen.json"
    with open(sp, "w") as f:
        json.dump(sc, f)
    cfg = mc_cfg(wd, name, invs, props, spec)
    return vlib.run_tlc("MC_Server", cfg, wd, env={"CFG": sp}, workers=workers, timeout=timeout,
                        simulate=simulate, extra=extra)


def tlc_scripts(wd, name, sc, num, seed, depth=400):
    """Behaviours of the spec (internal steps settled first) as replay scripts."""
    sc = dict(sc, record=True)
    r = run_mc(wd, name, sc, ["Export"], spec="SimSpec", workers=1, timeout=600,
               simulate=f"num={num}", extra=["-depth", str(depth), "-seed", str(seed)])
    out = []
    for line in r["out"].splitlines():
        if line.startswith('"REPLAY '):
            out.append(json.loads(json.loads(line)[len("REPLAY "):]))
    if not out:
        raise vlib.ToolError("no behaviours exported by TLC:\n" + vlib.strip_tlc(r["out"])[-1500:])
    return out


def mkjob(jid, sc, rng, steps=None, runtime="current", expect="any", seed=0, extra_tag=None):
    nc, n = len(sc["pol"]), sc["n"]
    tag = {"expect": expect}
    if extra_tag:
        tag.update(extra_tag)
    j = {"id": jid, "scen": sc,
         "inputs": [[rng.randrange(0, 30) for _ in range(n)] for _ in range(nc)],
         "cvals": [[rng.randrange(0, 30) for _ in range(n)] for _ in range(nc)],
         "seed": seed, "runtime": runtime, "tag": tag}
    if steps is not None:
        j["steps"] = steps
    return j


def scen_key(sc):
    d = {k: sc[k] for k in ("n", "conc", "pol")}
    return json.dumps(d, sort_keys=True)


def validate_and_judge(v, prop, jobs, wd, also_props=()):
    """Run the jobs on the real code; Trace_Server per scenario (drift),
    Mon_Server on everything (verdict).  Returns stats."""
    out = vlib.run_pt("server", jobs, wd, name="srv")
    # verdict
    res = vlib.tlc_trace("Mon_Server", vlib.MON_CFG, out, wd, depth_first=False, timeout=1800)
    jb = {j["id"]: j for j in jobs}
    runs = split_server_runs(out)
    nviol = 0
    for x in res.get("viol", []):
        if x["prop"] != prop and x["prop"] not in also_props:
            continue
        j = jb[x["run"]]
        steps = [e["step"] for e in runs[x["run"]] if e["ev"] == "step"]
        rj = dict(j, steps=steps)
        key = f"{x['prop']}: {x['what'].split(': ')[0]}"
        v.violation(key, {"kind": "server-job", "job": rj, "actor": [x["c"], x["p"]], "monitor_line": x["line"]},
                    f"run {x['run']} actor (c={x['c']},p={x['p']}): {x['what']}")
        nviol += 1
    # detailed conformance, one TLC run per scenario
    groups = {}
    for j in jobs:
        groups.setdefault(scen_key(j["scen"]), []).append(j["id"])
    accepted = 0
    events = 0
    for gi, (k, ids) in enumerate(groups.items()):
        tr = f"{wd}/trace{gi}.ndjson"
        with open(tr, "w") as f:
            for i in ids:
                for e in runs[i]:
                    f.write(json.dumps(e) + "\n")
        sc = dict(jb[ids[0]]["scen"], fix=fixes())
        sp = f"{wd}/trace{gi}.scen.json"
        with open(sp, "w") as f:
            json.dump(sc, f)
        r = vlib.tlc_trace("Trace_Server", vlib.SPEC + "/Trace_Server.cfg", tr, wd, env={"CFG": sp},
                           name=f"Trace_Server{gi}", timeout=1800)
        events += r["consumed"]
        if r["consumed"] < r["total"]:
            v.spec_drift(f"Trace_Server rejects event {r['consumed'] + 1}/{r['total']} of scenario group {gi}: "
                         f"{json.dumps(r['first_unmatched'])[:400]}")
        else:
            accepted += len(ids)
    # (the recorded histories of repaired defects are scripts of the UNREPAIRED tree: leaving them is expected)
    ends = [e for i in runs for e in runs[i] if e["ev"] == "end" and not str(i).startswith("regress.")]
    drift = sum(e["drift"] for e in ends)
    if drift:
        v.spec_drift(f"{drift} scripted runs left the TLC behaviour (a scripted gate was not parked)")
    st = sum(e["settle_timeouts"] for e in ends)
    if st:
        raise vlib.ToolError(f"{st} settle timeouts in the driver")
    return {"runs": len(jobs), "accepted": accepted, "events": events, "checked": res["checked"],
            "script_drift": drift, "groups": len(groups), "out": out, "runs_by_id": runs}


def split_server_runs(path):
    runs, cur = {}, None
    with open(path) as f:
        for line in f:
            e = json.loads(line)
            if e["ev"] == "cfg":
                cur = e["run"]
                runs[cur] = []
            runs[cur].append(e)
    return runs


def cancel_points(base_steps, sc, rng, limit):
    """Scripts that inject cancel() after every k-th step of a recorded base
    run, on every actor (C15's quantifier)."""
    out = []
    nc, n = len(sc["pol"]), sc["n"]
    pts = [(k, c, p) for k in range(len(base_steps) + 1) for c in range(1, nc + 1) for p in range(n)]
    if limit and len(pts) > limit:
        pts = rng.sample(pts, limit)
    for (k, c, p) in pts:
        out.append(base_steps[:k] + [{"g": "api", "what": "cancel", "c": c, "p": p}])
    return out


def rpcfail_points(base_steps):
    """Scripts that fail each single validate / run / constants call of a recorded base run (C17's quantifier: "a failure
    injected into each single validate/run/consts RPC")."""
    out = []
    for k, st in enumerate(base_steps):
        if st.get("g") == "rpc":
            out.append(base_steps[:k] + [dict(st, mode="fail")])
    return out


def stray_points(base_steps, sc, rng, limit, obs=None):
    """Injection points (prefix length, actor, stray kind). With the observations of the base run the points at which
    ServerCore.StrayAllowed cannot hold are left out beforehand (the driver checks the exact rule again), and the sample is
    stratified: every (stray kind, state of the addressed actor) pair that occurs is kept at least once."""
    out = []
    nc, n = len(sc["pol"]), sc["n"]
    kinds = ["Schedule", "Run", "Consts", "Validate", "MsgBad", "MsgEarly", "RunEarly", "ConstsBad", "MsgSelf"]
    pts = [(k, c, p, t) for k in range(len(base_steps) + 1) for c in range(1, nc + 1) for p in range(n) for t in kinds]
    if obs is not None:
        notyet = ("Init", "AwaitingValidation", "ValidateRequested")

        def kind_at(k, c, p):
            o = obs[min(k, len(obs) - 1)]
            if not o:
                return "Init"
            return next((a["kind"] for a in o["actors"] if a["c"] == c and a["p"] == p), "Init")

        def may(k, c, p, t):
            kd = kind_at(k, c, p)
            if t in ("Run", "Consts"):
                return kd in notyet
            if t == "Validate":
                return kd not in ("Init", "AwaitingValidation", "Stopped")
            if t == "RunEarly":
                return kd in notyet and sc["pol"][c - 1][p]["leader"] == p
            return True
        pts = [x for x in pts if may(*x)]
        if limit and len(pts) > limit:
            seen, keep, rest = set(), [], []
            for x in rng.sample(pts, len(pts)):
                key = (x[3], kind_at(x[0], x[1], x[2]))
                (rest if key in seen else keep).append(x)
                seen.add(key)
            pts = keep + rest[:max(0, limit - len(keep))]
    if limit and len(pts) > limit:
        pts = rng.sample(pts, limit)
    for (k, c, p, t) in pts:
        out.append((base_steps[:k], {"g": "api", "what": t, "c": c, "p": p}))
    return out


def base_run(wd, sc, rng, seed, name, with_obs=False):
    """One fault-free random run; returns its step list (and, on request, the observation after each step)."""
    sc0 = dict(sc, faults={"cancel": 0, "rpcfail": 0, "stray": 0})
    out = vlib.run_pt("server", [mkjob(name, sc0, rng, seed=seed)], wd, name=name, threads=1)
    evs = list(vlib.read_ndjson(out))
    steps = [e["step"] for e in evs if e["ev"] == "step"]
    if not with_obs:
        return steps
    # obs[k] = observation in force after k steps (obs[0]: before the first step)
    obs, last = [], None
    for e in evs:
        if e["ev"] == "obs":
            last = e
        elif e["ev"] == "step":
            obs.append(last)
    obs.append(last)
    return steps, obs


# ---------------------------------------------------------------------------
def scenarios(prop, tier, rng):
    q = tier == "quick"
    out = []
    if prop == "C13":
        # every leader, constants none/some/all, destination present/absent
        for leader in (0, 1):
            for consts in ([True, True], [False, True], [False, False]):
                for outs in ([True, True], [leader == 1, leader == 0]):
                    out.append(("n2", scen(n=2, leader=leader, consts=consts, out=outs)))
        combos3 = [(l, c, o) for l in range(3)
                   for c in ([True, True, True], [True, False, False], [False, False, False], [False, True, True])
                   for o in ([True, True, True], [False, True, False], [True, False, False])]
        # quick: constants from none / some / all parties with rotating leaders; thorough: all combinations
        quick3 = [(1, [False, False, False], [True, True, True]), (2, [True, False, False], [False, True, False]),
                  (0, [True, True, True], [True, False, True]), rng.choice(combos3)]
        for (l, c, o) in (quick3 if q else combos3):
            out.append(("n3", scen(n=3, leader=l, consts=c, out=o)))
        out.append(("n2k2", scen(n=2, comps=2, leader=[0, 1], conc=[1, 1])))
        # "... and MPC-message calls": one directed link delivers its MPC messages as late as possible
        out.append(("n3slow20", scen(n=3, leader=1, consts=[True, True, True], slow=[2, 0])))
        out.append(("n3slow10", scen(n=3, leader=0, consts=[False, False, False], slow=[1, 0])))
        # a circuit of several thousand AND gates (the garbled gates travel in 9 chunks): the per-peer message queues of
        # the state machine hold exactly what a garbler can send ahead of a slow third party (one slot fewer deadlocks)
        out.append(("n3big10", scen(n=3, leader=0, consts=[True, False, False], slow=[1, 0], prog="M")))
        if not q:
            out.append(("n3k2", scen(n=3, comps=2, leader=[2, 2], conc=[1, 1, 1], consts=[False, True, False])))
            for (a, b) in ((0, 1), (0, 2), (1, 2), (2, 1)):
                out.append((f"n3slow{a}{b}", scen(n=3, leader=(a + b) % 3, consts=[True, False, True], slow=[a, b])))
            # a circuit of several thousand AND gates (9 chunks of garbled gates): the margin of the per-peer queues
            for (a, b) in ((2, 0), (0, 1), (2, 1)):
                out.append((f"n3big{a}{b}", scen(n=3, leader=b, consts=[True, False, False], slow=[a, b], prog="M")))
            out.append(("n2slow01", scen(n=2, slow=[0, 1])))
            out.append(("n2slow10", scen(n=2, leader=1, slow=[1, 0])))
    elif prop == "C14":
        out.append(("n2", scen(n=2, stray=1)))
        out.append(("n2b", scen(n=2, leader=1, consts=[False, False], stray=1)))
        out.append(("n3", scen(n=3, leader=1, consts=[True, False, True], stray=1)))
        # the followers are scheduled late: the leader's validate request is already stored when stray commands arrive
        out.append(("n2late", scen(n=2, leader=0, stray=1, late=[1])))
        out.append(("n3late", scen(n=3, leader=2, consts=[False, True, False], stray=1, late=[0, 1])))
        if not q:
            out.append(("n2s2", scen(n=2, stray=2)))
            out.append(("n3b", scen(n=3, leader=0, consts=[False, False, False], out=[True, False, True], stray=1)))
    elif prop == "C15":
        out.append(("n2", scen(n=2, cancel=1)))
        out.append(("n2b", scen(n=2, leader=1, consts=[False, True], out=[True, True], cancel=1)))
        out.append(("n3", scen(n=3, leader=2, consts=[True, False, False], out=[True, True, False], cancel=1)))
        # cancel together with a failing coordination call (a notification may already have been sent)
        out.append(("n2cf", scen(n=2, cancel=1, rpcfail=1)))
        # two computations of one leader on one permit: cancel also reaches a leader that is waiting for its permit
        out.append(("n2k2", scen(n=2, comps=2, leader=[0, 0], conc=[1, 1], cancel=1)))
        out.append(("n2late", scen(n=2, leader=1, cancel=1, late=[0])))
        # all three kinds of disturbance in one run (every invariant of C13-C17 is checked on the model for it)
        out.append(("mix2", scen(n=2, cancel=1, rpcfail=1, stray=1)))
        if not q:
            out.append(("n2c2", scen(n=2, cancel=2)))
            out.append(("n3b", scen(n=3, leader=0, consts=[False, False, False], cancel=1)))
            out.append(("n2k2b", scen(n=2, comps=2, leader=[1, 1], conc=[1, 1], cancel=1, out=[False, True])))
    elif prop == "C16":
        def pol(n, leader, bad=None, what=None, consts=None):
            ps = [S.policy(leader, "A", True, (consts or [True] * n)[p], True) for p in range(n)]
            if what == "prog":
                ps[bad]["prog"] = "B"
            elif what == "linebreak":
                # leader and follower texts differ only in the position of one line break (different programs: a line
                # comment swallows the rest of the expression in the follower's text)
                for x in ps:
                    x["prog"] = "An"
                ps[bad]["prog"] = "Ac"
            elif what == "leader":
                ps[bad]["leader"] = [x for x in range(n) if x not in (leader, bad)][0]
            elif what == "typed":
                ps[bad]["typed"] = False
            return [ps]
        out.append(("n2prog", scen(n=2, pol=pol(2, 0, 1, "prog"))))
        out.append(("n2progL1", scen(n=2, pol=pol(2, 1, 0, "prog", consts=[False, False]))))
        out.append(("n3prog", scen(n=3, pol=pol(3, 0, 2, "prog"))))
        out.append(("n2linebreak", scen(n=2, pol=pol(2, 0, 1, "linebreak", consts=[False, False]))))
        out.append(("n3leader", scen(n=3, pol=pol(3, 0, 1, "leader"))))
        out.append(("n2typedF", scen(n=2, pol=pol(2, 0, 1, "typed"))))
        out.append(("n2typedL", scen(n=2, pol=pol(2, 0, 0, "typed"))))
        # "at any single follower": every (leader, offending follower) pair for n = 3 with a program WITHOUT constants, the
        # configuration in which a matching follower that is told to run starts the MPC at once (with constants it would
        # only send those and wait)
        k = 0
        for leader in range(3):
            for bad in range(3):
                if bad != leader:
                    out.append((f"n3nc.L{leader}B{bad}", scen(n=3, pol=pol(3, leader, bad, ("prog", "leader")[k % 2],
                                                                       consts=[False, False, False]))))
                    k += 1
        if not q:
            out.append(("n3leader2", scen(n=3, pol=pol(3, 2, 0, "leader", consts=[False, True, False]))))
            out.append(("n3typed", scen(n=3, pol=pol(3, 1, 2, "typed"))))
            out.append(("n3prog1", scen(n=3, pol=pol(3, 1, 0, "prog", consts=[False, False, False]))))
            out.append(("n3linebreak", scen(n=3, pol=pol(3, 0, 2, "linebreak"))))
            out.append(("n2linebreakL1", scen(n=2, pol=pol(2, 1, 0, "linebreak"))))
            # every (leader, offending follower) pair for n = 3 (the leader collects several answers: which one counts?)
            k = 0
            for leader in range(3):
                for bad in range(3):
                    if bad == leader:
                        continue
                    what = ("prog", "leader", "linebreak")[k % 3]
                    k += 1
                    cs = [[True, True, True], [False, False, False], [True, False, True]][k % 3]
                    out.append((f"n3{what}L{leader}B{bad}", scen(n=3, pol=pol(3, leader, bad, what, consts=cs))))
                    if what != "prog":
                        out.append((f"n3progL{leader}B{bad}", scen(n=3, pol=pol(3, leader, bad, "prog", consts=cs))))
    elif prop == "C17":
        out.append(("n2f", scen(n=2, rpcfail=1)))
        out.append(("n2fno", scen(n=2, rpcfail=1, out=[False, True], leader=0)))
        out.append(("n2k2", scen(n=2, comps=2, leader=[0, 0], conc=[1, 1], rpcfail=1)))
        out.append(("n3f", scen(n=3, rpcfail=1, leader=1, consts=[True, True, False], out=[True, False, True])))
        out.append(("n2c", scen(n=2, cancel=1, out=[False, True])))
        out.append(("mix2", scen(n=2, cancel=1, rpcfail=1, stray=1, leader=1, consts=[True, False])))
        # larger batches ("1..8 policies with concurrency 1..3", mixed leaders): the specification is explored by simulation
        # only (scenario names starting with "sim"), the real actors are driven as for every other scenario
        out.append(("simn2k5", scen(n=2, comps=5, leader=[0, 1, 0, 0, 1], conc=[2, 1], rpcfail=1, out=[True, False],
                                    consts=[False, False])))
        if not q:
            out.append(("simn2k8", scen(n=2, comps=8, leader=[0, 0, 1, 0, 1, 0, 0, 1], conc=[3, 2], rpcfail=1, cancel=1,
                                        consts=[False, False])))
            out.append(("simn3k4", scen(n=3, comps=4, leader=[2, 0, 2, 2], conc=[1, 1, 3], rpcfail=1, consts=[False, False, False],
                                        out=[True, False, False])))
            out.append(("n2k3", scen(n=2, comps=3, leader=[0, 0, 1], conc=[2, 1], rpcfail=1)))
            out.append(("n2k2c", scen(n=2, comps=2, leader=[0, 0], conc=[1, 1], rpcfail=1, cancel=1)))
            out.append(("n2k3b", scen(n=2, comps=3, leader=[1, 1, 1], conc=[1, 2], consts=[False, False])))
            out.append(("n3k2", scen(n=3, comps=2, leader=[0, 0], conc=[1, 1, 1], rpcfail=1, consts=[False, False, False])))
    return out


def check_server(prop, tier, replay):
    v = Verdict(prop, tier, "model_checking")
    wd = vlib.workdir(prop)
    rng = random.Random(f"{prop}-{v.seed}")
    q = tier == "quick"
    if replay:
        with open(replay) as f:
            rp = json.load(f)
        st = validate_and_judge(v, prop, [rp["replay"]["job"]], wd)
        v.coverage = {"states": 1, "transitions": 1, "traces_validated_against_impl": st["accepted"],
                      "samples": [rp["replay"]["job"]["id"]], "evaluations": 1}
        return v.finish()
    scs = [(f"{name}-{i}", sc) for i, (name, sc) in enumerate(scenarios(prop, tier, rng))]
    # (1) exhaustive exploration of the specification
    states = trans = 0
    mcs = []
    all_invs = sorted(set(sum(MC_INVS.values(), [])))
    for name, sc in ([] if os.environ.get("VERIF_SKIP_MC") else scs):
        invs = all_invs if name.startswith("mix") else MC_INVS[prop]
        big = len(sc["pol"]) * sc["n"] >= 6 or (sc["n"] == 3 and sum(sc["faults"].values()) > 0)
        if name.startswith("sim") or (q and big and prop != "C13"):
            # bounded by time in the quick tier: simulation
            r = run_mc(wd, f"mc-{name}", sc, invs, workers=4, timeout=300, simulate="num=3000", extra=["-depth", "300"])
            mode = "simulate"
        else:
            r = run_mc(wd, f"mc-{name}", sc, invs, workers=8, timeout=3000)
            mode = "exhaustive"
        if not r["ok"]:
            raise vlib.ToolError(f"MC_Server reports an error for scenario {name} (spec and tree disagree?):\n"
                                 + vlib.strip_tlc(r["out"])[-2500:])
        states += r["distinct"]
        trans += r["generated"]
        mcs.append({"scenario": name, "mode": mode, "distinct": r["distinct"]})
    if prop in ("C13", "C15") and not os.environ.get("VERIF_SKIP_MC"):
        name, sc = scs[0]
        r = run_mc(wd, "live", sc, [], props=["C13Liveness"] if prop == "C13" else ["C15Liveness"], spec="MCFair",
                   workers=4, timeout=1500)
        if not r["ok"]:
            raise vlib.ToolError("liveness check failed on the spec:\n" + vlib.strip_tlc(r["out"])[-2500:])
        states += r["distinct"]
        trans += r["generated"]
        mcs.append({"scenario": name, "mode": "liveness", "distinct": r["distinct"]})
    if prop in ("C15", "C17") and not os.environ.get("VERIF_SKIP_MC"):
        # two cancels during the constants exchange: cancel() always returns (repaired tree); the pinned handshake
        # (cancel waits for the constants task) must deadlock in the model -- negative control of the liveness check
        sc2 = scen(n=2, cancel=2)
        r = run_mc(wd, "live2", sc2, [], props=["C15Liveness"], spec="MCFair", workers=4, timeout=1500)
        if not r["ok"]:
            raise vlib.ToolError("C15Liveness with two cancels fails on the spec:\n" + vlib.strip_tlc(r["out"])[-2500:])
        states += r["distinct"]
        trans += r["generated"]
        mcs.append({"scenario": "n2 two cancels", "mode": "liveness", "distinct": r["distinct"]})
        neg = dict(sc2, fix=dict(sc2["fix"], cancelAbortsConstsTask=False))
        r = run_mc(wd, "live2neg", neg, [], props=["C15Liveness"], spec="MCFair", workers=4, timeout=1500)
        if r["ok"]:
            raise vlib.ToolError("negative control failed: the pinned cancel-waits-for-constants-task model satisfies C15Liveness")
    # (2) runs of the real code
    jobs = []
    nscript = 0
    for si, (name, sc) in enumerate(scs):
        expect = "happy" if prop in ("C13", "C14") else "any"
        nrand = (6 if q else 25)
        for k in range(nrand):
            jobs.append(mkjob(f"{prop}.{name}.r{k}", sc, rng, seed=rng.randrange(1 << 30), expect=expect))
        # behaviours generated by TLC from the spec, replayed
        num = 8 if q else 60
        for bi, b in enumerate(tlc_scripts(wd, f"sim-{name}", sc, num, v.seed * 1000 + si)):
            jobs.append(mkjob(f"{prop}.{name}.t{bi}", sc, rng, steps=b["steps"], seed=bi, expect=expect))
            nscript += 1
        # systematic injection points along a base run
        if prop == "C17" and sc["faults"]["rpcfail"] > 0:
            base = base_run(wd, sc, rng, v.seed + si, f"basef{si}")
            pts = rpcfail_points(base)
            if q and len(pts) > 16:
                pts = rng.sample(pts, 16)
            for ci, steps in enumerate(pts):
                jobs.append(mkjob(f"{prop}.{name}.f{ci}", sc, rng, steps=steps, seed=rng.randrange(1 << 30)))
        if prop == "C17" and sc["faults"]["cancel"] > 0 and len(sc["pol"]) == 1:
            base = base_run(wd, sc, rng, v.seed + si, f"base{si}")
            for ci, steps in enumerate(cancel_points(base, sc, rng, 40 if q else 0)):
                jobs.append(mkjob(f"{prop}.{name}.c{ci}", sc, rng, steps=steps, seed=rng.randrange(1 << 30)))
        if prop == "C15":
            base = base_run(wd, sc, rng, v.seed + si, f"base{si}")
            for ci, steps in enumerate(cancel_points(base, sc, rng, 40 if q else 0)):
                jobs.append(mkjob(f"{prop}.{name}.c{ci}", sc, rng, steps=steps, seed=rng.randrange(1 << 30)))
            if si == 0:
                for ci, steps in enumerate(cancel_points(base, sc, rng, 10 if q else 40)):
                    jobs.append(mkjob(f"{prop}.{name}.m{ci}", sc, rng, steps=steps, seed=ci, runtime="multi"))
        if prop == "C14":
            base, bobs = base_run(wd, sc, rng, v.seed + si, f"base{si}", with_obs=True)
            for ci, (pre, inj) in enumerate(stray_points(base, sc, rng, 60 if q else 400, obs=bobs)):
                jobs.append(mkjob(f"{prop}.{name}.s{ci}", sc, rng, steps=pre + [inj], seed=rng.randrange(1 << 30),
                                  expect="happy", extra_tag={"inject": inj["what"]}))
    # the recorded histories of the defects repaired so far (scripted gate sequences)
    for j in vlib.regression_jobs(prop, "server-job"):
        j["scen"] = dict(j["scen"], fix=fixes())
        jobs.append(j)
    st = validate_and_judge(v, prop, jobs, wd)
    # distinct situations exercised
    distinct = set()
    for rid, evs in st["runs_by_id"].items():
        prev = None
        for e in evs:
            if e["ev"] == "obs":
                prev = e
            elif e["ev"] == "step" and prev is not None:
                s = e["step"]
                kinds = {(a["c"], a["p"]): a["kind"] for a in prev["actors"]}
                if s["g"] == "cmd":
                    distinct.add(("cmd", s["name"], kinds.get((s["c"], s["p"]))))
                elif s["g"] == "api":
                    distinct.add(("api", s["what"], kinds.get((s["c"], s["p"]))))
                elif s["g"] == "rpc":
                    distinct.add(("rpc", s["k"], s.get("mode"), kinds.get((s["c"], s["to"]))))
                else:
                    distinct.add((s["g"], kinds.get((s["c"], s["p"]))))
    v.coverage = {
        "states": states, "transitions": trans,
        "traces_validated_against_impl": st["accepted"],
        "samples": [{"job": jobs[0]["id"], "scenario": {k: jobs[0]["scen"][k] for k in ("n", "conc", "pol", "faults")}},
                    {"job": jobs[-1]["id"], "script": (jobs[-1].get("steps") or [])[:8]}],
        "evaluations": len(jobs), "distinct_nontrivial": len(distinct),
        "rule": "a run = real PolicyState actors driven gate by gate (scripted by a TLC behaviour, by a systematic "
                "injection point, or by a seeded random policy); distinct = (gate/command, state kind it met) pairs exercised",
        "tlc_behaviours_replayed": nscript, "script_drift": f"{st['script_drift']} scripted runs left their TLC behaviour",
        "trace_events_validated": st["events"], "observations_judged": st["checked"],
        "scenarios": len(scs), "mc_runs": mcs, "fixes_in_tree": fixes(),
    }
    if prop == "C14":
        # vacuity guard: every stray kind of ServerCore.tla must actually have been answered by some actor in some run
        got = {}
        for rid, evs in st["runs_by_id"].items():
            last = None
            for e in evs:
                if e["ev"] == "obs":
                    last = e
            for a in (last or {}).get("actors", []):
                for x in a.get("strays", []):
                    k = x.split(":")[0]
                    got[k] = got.get(k, 0) + 1
        kinds = ["Schedule", "Run", "Consts", "Validate", "MsgBad", "MsgEarly", "RunEarly", "ConstsBad", "MsgSelf"]
        v.coverage["stray_commands_answered"] = {k: got.get(k, 0) for k in kinds}
        for k in kinds:
            if got.get(k, 0) == 0:
                v.spec_drift(f"stray kind {k} of ServerCore.tla was not injected in any run")
    v.assumptions = ["the MPC inside a policy run is the real engine; the spec abstracts it to start/complete/fail",
                     "gate hooks (--cfg polytune_verif) do not change behaviour when released",
                     "command-queue and per-peer message-queue capacities (10) are not modelled in ServerCore; the slow-link "
                     "scenarios exercise them on the real code"]
    rc = v.finish()
    shutil.rmtree(wd, ignore_errors=True)
    return rc


def _mk(prop):
    return lambda tier, replay: check_server(prop, tier, replay)


REGISTRY = {p: _mk(p) for p in ("C13", "C14", "C15", "C16", "C17")}

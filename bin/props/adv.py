"""C02, C03, C04(a), C08: one corrupted party.  Adversary.tla (enumerated by
TLC through MC_Adv) lists every deviation of a family for a public
configuration; each is applied to the real message in flight while all
parties run the real code under the deterministic executor; Mon_Adv judges."""
import json
import os
import random
import shutil

import engine_jobs as ej
import vlib
from vlib import Verdict, log
from .engine import circ_cfg

FAM_OF = {"C08": ["malformed"], "C03": ["online"], "C04": ["pre"], "C02": ["malformed", "online", "pre"]}


def scenarios(wd, name, circ, n, pe, po, c, fam):
    cfg = circ_cfg(circ, n, pe, po)
    cfg.update({"c": c, "fam": fam})
    cp = f"{wd}/{name}.json"
    with open(cp, "w") as f:
        json.dump(cfg, f)
    r = vlib.run_tlc("MC_Adv", vlib.SPEC + "/MC_Adv.cfg", wd, env={"CFG": cp}, workers=1, timeout=900)
    if not r["ok"]:
        raise vlib.ToolError("MC_Adv failed:\n" + vlib.strip_tlc(r["out"])[-1500:])
    out = []
    for line in r["out"].splitlines():
        if line.startswith('"REPLAY '):
            out.append(json.loads(json.loads(line)[len("REPLAY "):]))
    return out


def to_devs(sc):
    devs, taps = [], []
    for d in sc["devs"]:
        if "tap" in d:
            taps.append({"party": d["from"], "name": d["tap"], "idx": d["idx"]})
            continue
        x = {"from": d["from"], "to": None if d["to"] == 99 else d["to"], "phase": d["phase"],
             "k": None if d["k"] == 99 else d["k"]}
        x.update(d["mut"])
        devs.append(x)
    return devs, taps


def configs(prop, tier, rng):
    """(name, circuit, n, p_eval, p_out, corrupted party)"""
    q = tier == "quick"
    c2 = ej.fixed_small(2)[1]      # 2 ANDs, NOT chain, register reuse, x AND x
    c3 = ej.fixed_small(3)[1]
    out = []
    # n = 2: the corrupted party as garbler and as evaluator
    out.append(("n2.garbler", c2, 2, 0, [0, 1], 1))
    out.append(("n2.evaluator", c2, 2, 1, [0, 1], 1))
    if not q:
        out.append(("n2.evalNotOut", c2, 2, 0, [1], 0))
        out.append(("n2.dupout", ej.fixed_small(2)[0], 2, 1, [0], 1))
    # n = 3
    out.append(("n3.garbler", c3, 3, 0, [0, 1, 2], 2))
    if not q or prop in ("C03", "C04"):
        out.append(("n3.evaluator", c3, 3, 1, [0, 2], 1))
    # every index takes the corrupted role once for n = 3 (checks that loop over "the other parties" are easily asymmetric)
    # (C02 quick: online family only, see run_campaign -- a garbler that is NOT the highest-indexed one lies about its share)
    if not q or prop in ("C03", "C04", "C02"):
        out.append(("n3.first", c3, 3, 2, [1, 2], 0))
    if prop == "C02" or not q:
        # the highest index as corrupted evaluator, both garblers output parties, an output that depends on the evaluator's
        # input through XOR only and one that does not (coordinated equivocation, see Adversary.tla)
        I = ej.inst
        cxa = {"input_regs": [1, 1, 1], "insts": [I("I", 0, 0, 0), I("I", 1, 0, 1), I("I", 2, 0, 2), I("X", 0, 1, 3), I("X", 3, 2, 3),
                                                  I("A", 0, 1, 4)], "max_reg": 5, "output_regs": [3, 4], "and_ops": 1}
        out.append(("n3.last.eval", cxa, 3, 2, [0, 1], 2))
    if prop == "C03" or not q:
        # a circuit without AND gates and a deceived garbler outside the output set: nothing downstream (row decryption,
        # output labels) can turn an unnoticed equivocation into an error by accident
        cx = ej.fixed_small(3)[0]
        out.append(("n3.xor.eval", cx, 3, 0, [1], 0))
        out.append(("n3.xor.garbler", cx, 3, 1, [1], 0))
    if prop == "C03" or not q:
        # parties with TWO input bits each (a check that looks at the first wire of a party only), an output that is the
        # result of a NOT gate and is listed twice, the first output not the interesting one
        I = ej.inst
        c2b = {"input_regs": [2, 2], "insts": [I("I", 0, 0, 0), I("I", 1, 0, 1), I("I", 0, 1, 2), I("I", 1, 1, 3), I("A", 0, 1, 4),
                                               I("X", 2, 3, 5), I("N", 5, 0, 5), I("A", 4, 5, 6)],
               "max_reg": 7, "output_regs": [4, 5, 6, 5], "and_ops": 2}
        out.append(("n2.twobits.garbler", c2b, 2, 0, [0, 1], 1))
        out.append(("n2.twobits.evaluator", c2b, 2, 1, [0, 1], 1))
    if not q:
        # thorough: every (evaluator, corrupted party) pair
        out.append(("n2.pe1c0", c2, 2, 1, [0, 1], 0))
        have = {(0, 2), (1, 1), (2, 0)}
        for pe in range(3):
            for c in range(3):
                if (pe, c) not in have:
                    out.append((f"n3.pe{pe}c{c}", c3, 3, pe, [x for x in range(3) if x != (pe + 1) % 3] if (pe + c) % 2 else [0, 1, 2], c))
    return out


def run_campaign(prop, tier, v, wd, rng, fams=None, sample=None):
    jobs = []
    nscen = 0
    for (name, circ, n, pe, po, c) in configs(prop, tier, rng):
        fl = fams or FAM_OF[prop]
        if prop == "C02" and tier == "quick" and name == "n3.first":
            fl = [f for f in fl if f == "online"]
        for fam in fl:
            scs = scenarios(wd, f"{name}.{fam}", circ, n, pe, po, c, fam)
            scs.sort(key=lambda s: json.dumps(s, sort_keys=True))
            nscen += len(scs)
            # quick: the n = 3 malformation family is sampled (it repeats the n = 2 sites with more recipients)
            limit = None
            if sample and fam == "malformed" and n == 3:
                limit = sample
            if limit and len(scs) > limit:
                # stratified: one scenario of every (phase, mutation class) pair, the rest drawn at random
                seen, keep, rest = set(), [], []
                for sc in scs:
                    d0 = sc["devs"][0]
                    k = (d0.get("phase", d0.get("tap")), d0.get("mut", {}).get("m"))
                    (rest if k in seen else keep).append(sc)
                    seen.add(k)
                scs = keep + rng.sample(rest, max(0, min(len(rest), limit - len(keep))))
            for i, sc in enumerate(scs):
                devs, taps = to_devs(sc)
                # a dropped / forged optional value only shows when the hidden bit is 1: repeat
                reps = 4 if any(d.get("m") in ("ToNone", "ToNoneAny", "ToNoneAll", "ToSomeAny", "Clear") for d in devs) else 1
                # a rushing party sends last: the scheduler starves it
                rushing = str(sc.get("what", "")).startswith("mirrored")
                if rushing:
                    reps = 4
                for k in range(reps):
                    pol = {"kind": "Starve", "victim": c, "seed": rng.randrange(1 << 30)} if rushing else ej.policy(rng, n)
                    jobs.append(ej.job(f"{name}.{fam}.{i}.{k}", circ, ej.rand_inputs(rng, circ), pe, po, cap=0 if rushing else 1,
                                       pol=pol, events=False, devs=devs, taps=taps,
                                       tag=dict(sc, cfgname=name)))
    # the recorded runs of the defects repaired so far
    for j in vlib.regression_jobs(prop, "engine-job"):
        if "devs" in j.get("tag", {}):
            jobs.append(j)
    out = vlib.run_pt("engine", jobs, wd, name="adv", timeout=7200)
    res = vlib.tlc_trace("Mon_Adv", vlib.MON_CFG, out, wd, depth_first=False, timeout=3600)
    return jobs, out, res, nscen


def report(v, prop, jobs, res):
    jb = {j["id"]: j for j in jobs}
    n = 0
    for x in res.get("viol", []):
        if x["prop"] != prop:
            continue
        j = jb[x["run"]]
        t = j["tag"]
        d0 = t["devs"][0]
        site = d0.get("phase", d0.get("tap", "?"))
        mut = d0.get("mut", {}).get("m", "tap")
        role = "evaluator" if t["c"] == j["p_eval"] else "garbler"
        key = f"{prop}: {x['what'].split(':')[0]} [{site}/{mut}]"
        v.violation(key, {"kind": "engine-job", "job": j, "party": x["p"]},
                    f"run {x['run']} (n={len(j['circuit']['input_regs'])}, corrupted {role} {t['c']}, {t['what']}): {x['what']}")
        n += 1
    return n


def check_adv(prop, tier, replay):
    v = Verdict(prop, tier, "model_checking" if prop == "C03" else "fault_enumeration")
    wd = vlib.workdir(prop)
    rng = random.Random(f"{prop}-{v.seed}")
    if replay:
        with open(replay) as f:
            jobs = [json.load(f)["replay"]["job"]]
        out = vlib.run_pt("engine", jobs, wd, name="adv")
        res = vlib.tlc_trace("Mon_Adv", vlib.MON_CFG, out, wd, depth_first=False)
        nscen = 1
    else:
        sample = 400 if tier == "quick" else None
        jobs, out, res, nscen = run_campaign(prop, tier, v, wd, rng, sample=sample)
    report(v, prop, jobs, res)
    extra = {}
    if prop == "C04" and not replay:
        extra = c04_order(v, tier, wd, rng)
        pm, pstates = pre_model(v, tier, wd, "C04", jobs, out)
        extra.update(pm)
        bm, bstates = broadcast_model(v, tier, wd, jobs, out)
        extra.update(bm)
    if prop in ("C02", "C03") and not replay:
        extra, mstates, mtrans = online_model(v, tier, wd, jobs, out)
        extra.update({"states": mstates, "transitions": mtrans})
    # vacuity guard: a deviation kind of Adversary.tla that could not be applied in ANY run addresses messages or fields
    # that do not exist (any more) -- the scenario list and the code have drifted apart
    if not replay:
        appl = {}
        cur = None
        for r in vlib.read_ndjson_filtered(out, '"ev":"end"'):
            # (a later alteration of a coordinated pair may never be reached because the first one is caught)
            appl[r["run"]] = (bool(r.get("applied")) and any(r["applied"])) or r.get("taps_hit", 0) > 0
        by_what = {}
        for j in jobs:
            w = (j["tag"].get("fam"), j["tag"].get("what"))
            by_what.setdefault(w, []).append(appl.get(j["id"], False))
        never = sorted(f"{w[0]}: {w[1]}" for w, xs in by_what.items() if not any(xs))
        for w in never[:5]:
            v.spec_drift(f"deviation kind '{w}' of Adversary.tla could not be applied in any run")
        extra["scenario_kinds"] = len(by_what)
        extra["scenario_kinds_never_applied"] = never
    sites = {}
    for j in jobs:
        t = j["tag"]
        d0 = t["devs"][0]
        key = (t["fam"], d0.get("phase", d0.get("tap")), d0.get("mut", {}).get("m", "tap"),
               "evaluator" if t["c"] == j["p_eval"] else "garbler", len(j["circuit"]["input_regs"]))
        sites[key] = sites.get(key, 0) + 1
    outcomes = {}
    for r in vlib.read_ndjson_filtered(out, '"ev":"res"'):
        k = r["kind"] + (":" + r["err"] if r["err"] else "")
        outcomes[k] = outcomes.get(k, 0) + 1
    v.coverage = {
        "evaluations": len(jobs), "distinct_nontrivial": len(sites),
        "rule": "each evaluation = one real mpc() run of all parties with one deviation of Adversary.tla applied to the "
                "corrupted party's message in flight; distinct = (family, phase, mutation, corrupted role, n) tuples; "
                "scenarios whose deviation could not be applied (absent path) are not counted as applied",
        "samples": [{"scenario": jobs[0]["tag"]}, {"scenario": jobs[len(jobs) // 2]["tag"]}],
        "scenarios_enumerated_by_tlc": nscen, "runs_judged": res["checked"], "deviations_applied": res["applied"],
        "honest_and_corrupted_outcomes": dict(sorted(outcomes.items(), key=lambda kv: -kv[1])[:25]),
        "exhaustive": tier == "thorough",
    }
    v.coverage.update(extra)
    if prop == "C03":
        v.coverage["traces_validated_against_impl"] = extra.get("symbolic_online_model", {}).get("replayed_outcomes_compared_with_model", 0)
    v.assumptions = ["one corrupted party; it runs the honest code and deviates in the messages it sends (and in tapped bits)",
                     "bytes inside a malformation class are fixed representatives"]
    rc = v.finish()
    shutil.rmtree(wd, ignore_errors=True)
    return rc


WHAT_KIND = {"input share bit": "ws_bit", "input share MAC": "ws_mac", "output share bit": "ows_bit", "output share MAC": "ows_mac",
             "input label": "label", "garbled row": "row_ct", "garbled share": "row_share", "revealed value": "lam_val",
             "revealed label": "lam_lab", "masked input equivocation": "mi_equiv"}


def online_model(v, tier, wd, jobs=None, out=None):
    """The symbolic online phase (Wrk17Online) checked exhaustively by TLC for small configurations: HonestCorrect,
    TamperAborts, LabelTamper, Integrity; negative controls (a check left out) must fail; the model's table
    deviation kind -> error of the consuming check is compared with what the replays on the real code returned."""
    q = tier == "quick"
    I = ej.inst
    c1 = {"input_regs": [1, 1], "insts": [I("I", 0, 0, 0), I("I", 1, 0, 1), I("A", 0, 1, 2), I("N", 2, 0, 2), I("X", 2, 0, 0)],
          "max_reg": 3, "output_regs": [2, 0], "and_ops": 1}
    c3 = {"input_regs": [1, 1, 0], "insts": [I("I", 0, 0, 0), I("I", 1, 0, 1), I("A", 0, 1, 2), I("N", 2, 0, 2), I("X", 2, 1, 1)],
          "max_reg": 3, "output_regs": [2, 1, 2], "and_ops": 1}
    big = ej.fixed_small(2)[1]
    plan = [("n2.garbler", c1, 2, 0, [0, 1], 1, None), ("n2.evaluator", c1, 2, 0, [0, 1], 0, None),
            ("n2.big.garbler", big, 2, 1, [0, 1], 0, [[True], [False]]), ("n2.big.evaluator", big, 2, 1, [0], 1, [[False], [True]]),
            ("n3.garbler", c3, 3, 1, [0, 2], 2, [[True], [False], []])]
    if not q:
        plan += [("n2.evalNotOut", c1, 2, 0, [1], 0, None), ("n3.evaluator", c3, 3, 1, [0, 2], 1, None),
                 ("n3.garbler.all", c3, 3, 0, [0, 1, 2], 1, None), ("n2.big.all", big, 2, 0, [0, 1], 1, None)]
    states = trans = 0
    table = None
    runs = []

    def mc(name, circ, n, pe, po, c, fix, weak=None):
        cfg = circ_cfg(circ, n, pe, po)
        cfg["c"] = c
        if fix is not None:
            cfg["fixinputs"] = fix
        if weak:
            cfg["weak"] = weak
        cp = f"{wd}/online-{name}.json"
        with open(cp, "w") as f:
            json.dump(cfg, f)
        return vlib.run_tlc("MC_Online", vlib.SPEC + "/MC_Online.cfg", wd, env={"CFG": cp}, workers=8, timeout=3000)

    for (name, circ, n, pe, po, c, fix) in plan:
        r = mc(name, circ, n, pe, po, c, fix)
        if not r["ok"]:
            raise vlib.ToolError(f"MC_Online reports an error for {name}:\n" + vlib.strip_tlc(r["out"])[-2000:])
        states += r["distinct"]
        trans += r["generated"]
        runs.append({"config": name, "distinct": r["distinct"]})
        for line in r["out"].splitlines():
            if line.startswith('"TABLE '):
                table = json.loads(json.loads(line)[len("TABLE "):])
    for (weak, c) in (("no_output_mac", 1), ("no_row_mac", 1), ("no_output_label", 0), ("no_input_mac", 0)):
        r = mc(f"neg-{weak}", c1, 2, 0, [0, 1], c, None, weak=weak)
        if r["ok"]:
            raise vlib.ToolError(f"negative control failed: Wrk17Online without {weak} satisfies all invariants")
    # prediction conformance
    compared = mismatched = 0
    if jobs is not None and table is not None:
        res = {}
        for r in vlib.read_ndjson(out):
            if r["ev"] == "cfg":
                cur = r["run"]
                res[cur] = {}
            elif r["ev"] == "res":
                res[cur][r["p"]] = r
        for j in jobs:
            t = j["tag"]
            kind = WHAT_KIND.get(t.get("what"))
            if t.get("fam") != "online" or kind is None:
                continue
            for vic in t["victims"]:
                got = res[j["id"]][vic]
                if got["kind"] != "err":
                    continue        # judged by the monitor
                compared += 1
                if got["err"] != table[kind] and not (kind == "mi_equiv" and "Channel" in got["err"]):
                    mismatched += 1
                    if mismatched <= 3:
                        v.spec_drift(f"Wrk17Online predicts {table[kind]} for '{t['what']}', the real code returned {got['err']} "
                                     f"(run {j['id']})")
    return {"symbolic_online_model": {"states": states, "transitions": trans, "configs": runs,
                                      "negative_controls_failed_as_required": 4,
                                      "replayed_outcomes_compared_with_model": compared, "mismatches": f"{mismatched} mismatches"}}, states, trans


# (a check value altered in flight no longer matches its commitment: the model's "hashcommit"; the model's "hash" -- a wrong
# value committed consistently -- has no in-flight counterpart and is covered on the model side only)
PRE_KIND = {"HaAND bits": "h01", "LaAND e bit": "e", "LaAND check value": "hashcommit", "LaAND commitment": "hashcommit",
            "d-value bit": "dbit", "d-value MAC": "dmac", "Beaver d": "bd", "Beaver e": "be", "Beaver d MAC": "bdmac",
            "Beaver e MAC": "bemac", "two LaAND check values": "hashcommit", "two LaAND e bits": "e", "two d-value bits": "dbit",
            "two d-value MACs": "dmac", "two Beaver d": "bd", "two Beaver e": "be", "two Beaver d MACs": "bdmac",
            "two Beaver e MACs": "bemac"}


def pre_model(v, tier, wd, which, jobs=None, out=None):
    """The symbolic AND-triple preprocessing (Wrk17Pre: leaky AND, bucket combination, Beaver) checked exhaustively by TLC
    for small configurations: HonestCorrect, PassImpliesCorrect, CheatDetected, TableSound, KeySecrecy, AbortLeakExact;
    negative controls (a check left out) must fail; the model's table deviation kind -> error is compared with what
    the replays of the same deviation on the real code returned."""
    q = tier == "quick"
    # (N, C, MODE, SENUM, RESTRICT)
    plans = {
        "C04": [(2, 1, "laand", True, False), (2, 0, "laand", True, False), (2, 1, "beaver", False, True)]
               + ([] if q else [(3, 0, "laand", False, False), (3, 1, "laand", False, False), (2, 0, "beaver", False, False)]),
        "C10": [(2, 0, "laand", True, False), (2, 0, "beaver", False, True)]
               + ([] if q else [(3, 2, "laand", False, False), (2, 1, "beaver", False, False)]),
        "C07": [(2, 0, "laand", False, False), (2, 1, "laand", False, False)]
               + ([] if q else [(3, 1, "laand", False, False), (2, 1, "beaver", False, True)]),
    }
    states = 0
    table = None
    runs = []

    def mc(n, c, mode, senum, restrict, weak="none"):
        cp = f"{wd}/pre-{n}-{c}-{mode}-{weak}.cfg"
        b = lambda x: "TRUE" if x else "FALSE"
        with open(cp, "w") as f:
            f.write(f'SPECIFICATION Spec\nCONSTANTS\n N = {n}\n C = {c}\n MODE = "{mode}"\n SENUM = {b(senum)}\n WEAK = "{weak}"\n'
                    f' RESTRICT = {b(restrict)}\nINVARIANT HonestCorrect\nINVARIANT PassImpliesCorrect\nINVARIANT CheatDetected\n'
                    'INVARIANT TableSound\nINVARIANT KeySecrecy\nINVARIANT AbortLeakExact\nCHECK_DEADLOCK FALSE\n')
        return vlib.run_tlc("Wrk17Pre", cp, wd, workers=8, timeout=3000)

    for (n, c, mode, senum, restrict) in plans[which]:
        r = mc(n, c, mode, senum, restrict)
        if not r["ok"]:
            raise vlib.ToolError(f"Wrk17Pre reports an error for N={n} C={c} {mode}:\n" + vlib.strip_tlc(r["out"])[-2000:])
        states += r["distinct"]
        runs.append({"config": f"N={n},C={c},{mode}" + (",restricted" if restrict else ""), "distinct": r["distinct"]})
        for line in r["out"].splitlines():
            if line.startswith('"TABLE '):
                table = json.loads(json.loads(line)[len("TABLE "):])
    neg = 0
    for (mode, weak, inv) in (("laand", "no_xor_check", "PassImpliesCorrect"), ("beaver", "no_dvalue_mac", "PassImpliesCorrect"),
                              ("beaver", "no_beaver_mac", "CheatDetected")):
        r = mc(2, 1, mode, False, True, weak=weak)
        neg += 1
        if r["ok"] or f"{inv} is violated" not in r["out"]:
            raise vlib.ToolError(f"negative control failed: Wrk17Pre with {weak} does not violate {inv}")
    compared = mismatched = 0
    if jobs is not None and table is not None:
        res = {}
        cur = None
        for r in vlib.read_ndjson(out):
            if r["ev"] == "cfg":
                cur = r["run"]
                res[cur] = {}
            elif r["ev"] == "res":
                res[cur][r["p"]] = r
        for j in jobs:
            t = j["tag"]
            kind = PRE_KIND.get(t.get("what"))
            if t.get("fam") != "pre" or kind is None or j["id"] not in res:
                continue
            for vic in t.get("victims", t.get("judge", [])):
                got = res[j["id"]].get(vic)
                if got is None or got["kind"] != "err":
                    continue        # a victim that does not return Err is judged by the monitor
                compared += 1
                # a broadcast value altered towards ONE of several recipients is an equivocation, caught by the echo round
                # before the value is used (the model's corrupted party tells everybody the same lie)
                equiv = (len(j["circuit"]["input_regs"]) >= 3 and t["devs"][0].get("to") != 99
                         and kind in ("e", "hashcommit") and got["err"].endswith(".InconsistentBroadcast"))
                if not got["err"].endswith("." + table[kind]) and "Channel" not in got["err"] and not equiv:
                    mismatched += 1
                    if mismatched <= 3:
                        v.spec_drift(f"Wrk17Pre predicts {table[kind]} for '{t['what']}', the real code returned {got['err']} "
                                     f"(run {j['id']})")
    return {"symbolic_preprocessing_model": {"states": states, "configs": runs, "negative_controls_failed_as_required": neg,
                                             "replayed_outcomes_compared_with_model": compared,
                                             "mismatches": f"{mismatched} mismatches"}}, states


def broadcast_model(v, tier, wd, jobs=None, out=None):
    """Broadcast with abort (Broadcast.tla: round-1 values, round-2 echo of hashes, comparison) over FIFO channels, every
    interleaving, one corrupted party that equivocates and reports arbitrarily: EquivocationCaught, Agreement, NoFalseAbort,
    HonestValues, Termination (liveness under weak fairness). Negative control: without the comparison EquivocationCaught
    must fail. The prediction (every honest party returns InconsistentBroadcast when the corrupted party equivocates, n >= 3)
    is compared with the replays of the equivocation scenarios on the real code."""
    q = tier == "quick"
    states = 0
    runs = []

    def mc(n, c, honest, weak="none", sim=None):
        cp = f"{wd}/bc-{n}-{c}-{honest}-{weak}.cfg"
        with open(cp, "w") as f:
            f.write(f'SPECIFICATION Spec\nCONSTANTS\n N = {n}\n C = {c}\n Values = {{0, 1}}\n HONESTRUN = {"TRUE" if honest else "FALSE"}\n'
                    f' WEAK = "{weak}"\nINVARIANT EquivocationCaught\nINVARIANT Agreement\nINVARIANT NoFalseAbort\n'
                    'INVARIANT HonestValues\nINVARIANT TypeOK\nCHECK_DEADLOCK FALSE\n' + ("" if sim else "PROPERTY Termination\n"))
        return vlib.run_tlc("Broadcast", cp, wd, workers=1 if sim else 8, timeout=1500, simulate=sim, extra=(["-depth", "90"] if sim else []))

    for (n, c, honest) in [(3, 0, False), (3, 1, False), (3, 2, False), (3, 0, True), (2, 1, False)]:
        r = mc(n, c, honest)
        if not r["ok"]:
            raise vlib.ToolError(f"Broadcast reports an error for N={n} C={c}:\n" + vlib.strip_tlc(r["out"])[-1500:])
        states += r["distinct"]
        runs.append({"config": f"N={n},C={c}" + (",honest" if honest else ""), "distinct": r["distinct"]})
    if not q:
        r = mc(4, 2, False, sim="num=20000", )
        if "Error" in r["out"] or "violated" in r["out"]:
            raise vlib.ToolError("Broadcast (N=4, simulation) reports an error:\n" + vlib.strip_tlc(r["out"])[-1500:])
        runs.append({"config": "N=4,C=2,simulation num=20000", "distinct": r["distinct"]})
    r = mc(3, 2, False, weak="no_compare")
    if r["ok"] or "EquivocationCaught is violated" not in r["out"]:
        raise vlib.ToolError("negative control failed: Broadcast without the comparison satisfies EquivocationCaught")
    compared = mismatched = 0
    if jobs is not None:
        res = {}
        cur = None
        for x in vlib.read_ndjson(out):
            if x["ev"] == "cfg":
                cur = x["run"]
                res[cur] = {}
            elif x["ev"] == "res":
                res[cur][x["p"]] = x
        for j in jobs:
            t = j["tag"]
            if not str(t.get("what", "")).startswith("equivocation: a") or j["id"] not in res:
                continue
            for vic in t["victims"]:
                got = res[j["id"]].get(vic)
                if got is None:
                    continue
                compared += 1
                if got["kind"] != "err" or not (got["err"].endswith(".InconsistentBroadcast") or "Channel" in got["err"]):
                    mismatched += 1
                    if mismatched <= 3:
                        v.spec_drift(f"Broadcast predicts InconsistentBroadcast at every honest party for '{t['what']}', party {vic} of run "
                                     f"{j['id']} returned {got['kind']} {got['err']}")
    return {"broadcast_model": {"states": states, "configs": runs, "negative_controls_failed_as_required": 1,
                                "liveness": "Termination checked under WF(Next) in every exhaustive configuration",
                                "replayed_outcomes_compared_with_model": compared, "mismatches": f"{mismatched} mismatches"}}, states


def c04_order(v, tier, wd, rng):
    """C04(b): no reveal before every commitment of the round was received -- invariant of MC_Sched over all
    interleavings, and Mon_C04b over the posted/completed operation traces of real runs under adversarial schedulers
    (Mon_C04b also holds the one challenge-after-data clause that is a plain message order: KOS seed after the matrix)."""
    from . import engine
    q = tier == "quick"
    states = 0
    for (n, circ, pe, cap) in ([(2, ej.fixed_small(2)[1], 0, 1)] if q else
                               [(2, ej.fixed_small(2)[1], 0, 1), (2, ej.and_chain(2, 2), 1, 2), (3, ej.fixed_small(3)[2], 1, 1)]):
        r = engine.mc_sched(wd, circ_cfg(circ, n, pe, list(range(n))), engine.scaled_consts(cap), name=f"ord{n}{pe}{cap}")
        if not r["ok"]:
            raise vlib.ToolError("MC_Sched (NoEarlyReveal) reports an error:\n" + vlib.strip_tlc(r["out"])[-1500:])
        states += r["distinct"]
    jobs = []
    for n in (2, 3) if q else (2, 3, 4):
        for k, kind in enumerate(ej.POLICIES):
            c = ej.fixed_small(n)[k % 3]
            jobs.append(ej.job(f"ord.n{n}.{kind}", c, ej.rand_inputs(rng, c), k % n, [0], cap=[1, 2, 0][k % 3],
                               pol=ej.policy(rng, n, kind)))
    out = vlib.run_pt("engine", jobs, wd, name="ord")
    res = vlib.tlc_trace("Mon_C04b", vlib.MON_CFG, out, wd, name="mon4b")
    jb = {j["id"]: j for j in jobs}
    for x in res.get("viol", []):
        key = (x["what"].split(" number")[0] + (" sent before the data it tests was received" if "tests" in x["what"]
                                                   else " before all commitments were received"))
        v.violation("C04: " + key,
                    {"kind": "engine-job", "job": jb[x["run"]], "party": x["p"]}, f"run {x['run']}: party {x['p']}: {x['what']}")
    # C04(c): challenges vs. the data under check, on honest runs with several aBit calls
    cjobs = []
    for n in (2, 3) if q else (2, 3, 4):
        for k in range(2 if q else 6):
            c = ej.and_chain(n, 4 + k)
            cjobs.append(ej.job(f"coins.n{n}.{k}", c, ej.rand_inputs(rng, c), k % n, [0], cap=1, pol=ej.policy(rng, n),
                                probes=True, predict=True))
    cout = vlib.run_pt("engine", cjobs, wd, name="coins")
    cres = vlib.tlc_trace("Mon_C04c", vlib.MON_CFG, cout, wd, name="mon4c", depth_first=False)
    cjb = {j["id"]: j for j in cjobs}
    for x in cres.get("viol", []):
        v.violation("C04: " + x["what"], {"kind": "engine-job", "job": cjb[x["run"]]}, f"run {x['run']}: {x['what']}")
    return {"challenge_after_data": {"honest_runs": len(cjobs), "challenge_values_compared_with_predictions": cres["checked"]},
            "commit_before_reveal": {"mc_sched_states_all_interleavings": states, "real_runs_under_adversarial_schedulers": len(jobs),
                                     "reveal_sends_checked": res["checked"]}}


def _mk(prop):
    return lambda tier, replay: check_adv(prop, tier, replay)


REGISTRY = {p: _mk(p) for p in ("C02", "C03", "C08", "C04")}

"""C01, C05, C09, C12 (and the engine-level clauses of C19 and C04b): honest
runs of the real engine under the deterministic executor, judged by TLC."""
import json
import os
import random
import shutil
import time

import engine_jobs as ej
import vlib
from vlib import Verdict, log


def scaled_consts(cap=1):
    return {"Cap": cap, "RecordHist": "FALSE", "RHO": 1, "SSP": 1, "BFLOOR": 1, "BMAX": 2, "BT4": 1000000, "BT3": 2000000}


def real_consts(cap=1):
    d = dict(vlib.REAL_CONSTS)
    d["Cap"] = cap
    d["RecordHist"] = "FALSE"
    return d


def run_jobs(jobs, wd, name="eng"):
    out = vlib.run_pt("engine", jobs, wd, name=name)
    return out


def filter_file(src, dst, keep):
    n = 0
    with open(src) as f, open(dst, "w") as g:
        for line in f:
            if keep(line):
                g.write(line)
                n += 1
    return n


def light(line):
    return '"ev":"s"' not in line and '"ev":"e"' not in line


def no_post(line):
    return '"ev":"s"' not in line


def jobs_by_id(jobs):
    return {j["id"]: j for j in jobs}


def report_monitor(v, res, jobs, keyfn=None):
    """Turn a monitor result into violations (with the job as replay)."""
    jb = jobs_by_id(jobs)
    for x in res.get("viol", []):
        j = jb.get(x["run"])
        key = keyfn(x, j) if keyfn else x["what"]
        v.violation(key, {"kind": "engine-job", "job": j, "monitor_line": x.get("line"), "party": x.get("p")},
                    f"run {x['run']}: {x['what']}")


def detailed_conformance(v, trace, wd, name="Trace_Engine"):
    """Detailed spec conformance; a rejection is SPEC-DRIFT, not an alarm."""
    res = vlib.tlc_trace("Trace_Engine", vlib.SPEC + "/Trace_Engine.cfg", trace, wd, name=name)
    if res["consumed"] < res["total"]:
        v.spec_drift(f"Trace_Engine rejects event {res['consumed']+1}/{res['total']}: "
                     f"{json.dumps(res['first_unmatched'])[:300]}")
        return 0, res
    return 1, res


def mc_sched(wd, cfgobj, consts, workers=8, timeout=900, name="mc"):
    cp = f"{wd}/{name}.cfg.json"
    with open(cp, "w") as f:
        json.dump(cfgobj, f)
    cfg = vlib.std_cfg(wd, name, spec="Spec", constants=consts,
                       invariants=["FifoMatch", "OneOutstanding", "QuiescentAtEnd", "NoEarlyReveal", "OutputPrivacy"],
                       properties=["Termination"], deadlock=True, view="view")
    r = vlib.run_tlc("MC_Sched", cfg, wd, env={"CFG": cp}, workers=workers, timeout=timeout)
    return r


def circ_cfg(circ, n, pe, po):
    return {"n": n, "pe": pe, "po": po,
            "circ": {"ir": circ["input_regs"], "insts": circ["insts"], "mr": circ["max_reg"],
                     "or": circ["output_regs"], "ands": circ["and_ops"]}}


# ---------------------------------------------------------------------------


def honest_runs(tier, wd, seed):
    groups = ej.honest_suite(seed, tier)
    jobs = [j for g in groups for j in g]
    out = run_jobs(jobs, wd)
    return groups, jobs, out


def check_C01(tier, replay):
    v = Verdict("C01", tier, "model_checking")
    wd = vlib.workdir("C01")
    if replay:
        return replay_engine(v, replay, wd, "Mon_C01")
    groups, jobs, out = honest_runs(tier, wd, v.seed)
    small = f"{wd}/light.ndjson"
    filter_file(out, small, light)
    res = vlib.tlc_trace("Mon_C01", vlib.MON_CFG, small, wd)
    report_monitor(v, res, jobs)
    # detailed conformance on the full op traces (completed operations only)
    full = f"{wd}/ops.ndjson"
    filter_file(out, full, no_post)
    ok, tres = detailed_conformance(v, full, wd)
    # model: all interleavings of the scaled model for the smallest configs
    states = trans = 0
    mcs = []
    for n, circ in ((2, ej.fixed_small(2)[1]), (2, ej.and_chain(2, 2))) + (((3, ej.fixed_small(3)[1]),) if tier == "thorough" else ()):
        for pe in range(n if tier == "thorough" else 1):
            r = mc_sched(wd, circ_cfg(circ, n, pe, list(range(n))), scaled_consts(1), name=f"mc{n}{pe}")
            if not r["ok"]:
                raise vlib.ToolError("MC_Sched reports an error on the spec:\n" + vlib.strip_tlc(r["out"])[-2000:])
            states += r["distinct"]
            trans += r["generated"]
            mcs.append({"n": n, "pe": pe, "distinct": r["distinct"]})
    v.coverage = {
        "states": states, "transitions": trans,
        "traces_validated_against_impl": len(jobs) if ok else 0,
        "samples": [{"job": jobs[0]["id"], "p_eval": jobs[0]["p_eval"], "p_out": jobs[0]["p_out"],
                     "circuit": jobs[0]["circuit"], "inputs": jobs[0]["inputs"]},
                    {"job": jobs[-1]["id"], "and_ops": jobs[-1]["circuit"]["and_ops"]}],
        "evaluations": len(jobs), "results_checked_by_monitor": res["checked"],
        "trace_events_validated": tres["consumed"], "configs": len(groups), "mc_runs": mcs,
        "rule": "each run = one real mpc() execution of all parties under the scheduler-controlled executor; "
                "Mon_C01 compares every party's result with ClearEval computed by TLC",
    }
    v.assumptions = ["channels reliable and FIFO per pair (harness network)", "TLC ClearEval is the clear-text oracle"]
    rc = v.finish()
    shutil.rmtree(wd, ignore_errors=True)
    return rc


def replay_engine(v, replay, wd, monitor):
    with open(replay) as f:
        rp = json.load(f)
    job = rp["replay"]["job"]
    out = run_jobs([job], wd)
    trace = out
    res = vlib.tlc_trace(monitor, vlib.MON_CFG, trace, wd)
    report_monitor(v, res, [job])
    v.coverage = {"states": 1, "transitions": 1, "traces_validated_against_impl": 0,
                  "samples": [job["id"]], "evaluations": 1, "distinct_nontrivial": 2}
    return v.finish()


def check_C05(tier, replay):
    v = Verdict("C05", tier, "model_checking")
    wd = vlib.workdir("C05")
    if replay:
        return replay_engine(v, replay, wd, "Mon_C05")
    groups, jobs, out = honest_runs(tier, wd, v.seed + 5)
    tr = f"{wd}/ops.ndjson"
    filter_file(out, tr, no_post)
    res = vlib.tlc_trace("Mon_C05", vlib.MON_CFG, tr, wd)
    report_monitor(v, res, jobs)
    ok, tres = detailed_conformance(v, tr, wd)
    # the model side: Program never contains a post-input-processing message to
    # a non-output party (checked over all interleavings by MC_Sched's Mirror
    # assumption + the OutputOnlyToPo ASSUME of MC_C05)
    states = trans = 0
    n = 3
    combos = [(pe, po) for pe in range(3) for po in ej.nonempty_subsets(3)]
    if tier == "quick":
        combos = combos[::4]
    for pe, po in combos:
        r = mc_sched(wd, circ_cfg(ej.fixed_small(3)[2], 3, pe, po), scaled_consts(1), name=f"mc{pe}{''.join(map(str,po))}")
        if not r["ok"]:
            raise vlib.ToolError("MC_Sched reports an error on the spec:\n" + vlib.strip_tlc(r["out"])[-2000:])
        states += r["distinct"]
        trans += r["generated"]
    v.coverage = {
        "states": states, "transitions": trans,
        "traces_validated_against_impl": len(jobs) if ok else 0,
        "samples": [{"job": j["id"], "p_eval": j["p_eval"], "p_out": j["p_out"]} for j in jobs[:3]],
        "evaluations": len(jobs), "messages_and_results_checked": res["checked"],
        "mc_configs": len(combos),
        "rule": "every message of every recorded honest run is checked by Mon_C05",
    }
    v.assumptions = ["phase labels passed to Channel identify output opening material"]
    rc = v.finish()
    shutil.rmtree(wd, ignore_errors=True)
    return rc


def check_C09(tier, replay):
    v = Verdict("C09", tier, "model_checking")
    wd = vlib.workdir("C09")
    groups = ej.honest_suite(v.seed + 9, tier)
    # "... and all random coins": many executions of the smallest configurations with AND gates (a pattern that depends
    # on a few secret coin bits -- e.g. nothing sent when a short vector is all zero -- shows with probability 2^-5 per
    # party and run for one AND gate, and practically never for larger circuits)
    rngc = random.Random(f"c09coins-{v.seed}")
    for (n, reps) in ((2, 100), (3, 40)) if tier == "quick" else ((2, 400), (3, 150), (4, 40)):
        circ = ej.and_chain(n, 1, with_not=False)
        groups.append([ej.job(f"coins1and.n{n}.{k}", circ, ej.rand_inputs(rngc, circ), k % n, [0], cap=1,
                              pol=ej.policy(rngc, n), tag={"grp": f"coins1and.n{n}.pe{k % n}"}) for k in range(reps)])
    jobs = [j for g in groups for j in g]
    out = run_jobs(jobs, wd)
    tr = f"{wd}/ops.ndjson"
    filter_file(out, tr, no_post)
    res = vlib.tlc_trace("Mon_C09", vlib.MON_CFG, tr, wd)
    jb = jobs_by_id(jobs)
    for x in res.get("viol", []):
        grp = jb[x["run"]]["tag"]["grp"]
        gj = [j for j in jobs if j["tag"]["grp"] == grp]
        v.violation(x["what"].split(":")[0] + " differs between runs of one public configuration",
                    {"kind": "engine-group", "jobs": gj}, f"group {grp}: {x['what']}")
    ok, tres = detailed_conformance(v, tr, wd)
    # model side: Program is a function of public parameters by construction;
    # TLC checks it is well formed (Mirror) for the configurations explored
    states = trans = 0
    for n, circ, pe in ((2, ej.fixed_small(2)[1], 0), (2, ej.and_chain(2, 2), 1)):
        r = mc_sched(wd, circ_cfg(circ, n, pe, [0]), scaled_consts(1), name=f"mc{n}{pe}")
        if not r["ok"]:
            raise vlib.ToolError("MC_Sched reports an error on the spec:\n" + vlib.strip_tlc(r["out"])[-2000:])
        states += r["distinct"]
        trans += r["generated"]
    v.coverage = {
        "states": states, "transitions": trans,
        "traces_validated_against_impl": len(jobs) if ok else 0,
        "samples": [{"group": g[0]["tag"]["grp"], "runs": len(g)} for g in groups[:4]],
        "evaluations": len(jobs), "groups": res["groups"],
        "rule": "runs of one group share circuit/n/p_eval/p_out and differ in inputs, coins, tmp_dir, capacity, schedule; "
                "Mon_C09 requires identical per-pair (phase,length) sequences; Trace_Engine computes the expected "
                "pattern from public parameters only",
    }
    rc = v.finish()
    shutil.rmtree(wd, ignore_errors=True)
    return rc



def tlc_schedules(wd, cfgobj, cap, num, name, seed):
    """Behaviours of MC_Sched with the REAL constants, exported as schedules."""
    cp = f"{wd}/{name}.cfg.json"
    with open(cp, "w") as f:
        json.dump(cfgobj, f)
    consts = real_consts(cap)
    consts["RecordHist"] = "TRUE"
    cfg = vlib.std_cfg(wd, name, spec="SimSpec", constants=consts, invariants=["Export"], deadlock=False)
    r = vlib.run_tlc("MC_Sched", cfg, wd, env={"CFG": cp}, workers=1, timeout=600,
                     simulate=f"num={num}", extra=["-depth", "100000", "-seed", str(seed)])
    scheds = []
    for line in r["out"].splitlines():
        if line.startswith('"REPLAY '):
            codes = json.loads(line[len('"REPLAY '):-1])
            scheds.append([[c // 100, "R" if (c // 10) % 10 == 1 else "S", c % 10] for c in codes])
    if not scheds:
        raise vlib.ToolError("no schedules exported by TLC:\n" + vlib.strip_tlc(r["out"])[-1500:])
    return scheds


def check_C12(tier, replay):
    v = Verdict("C12", tier, "model_checking")
    wd = vlib.workdir("C12")
    if replay:
        return replay_engine(v, replay, wd, "Mon_C12")
    quick = tier == "quick"
    rng = random.Random(f"c12-{v.seed}")
    jobs = []
    # (1) adversarial-order and random schedulers, all capacities
    for n in (2, 3, 4):
        circs = ej.fixed_small(n) + [ej.gen_circuit(rng, n, gates=5)]
        reps = {2: 14, 3: 8, 4: 4}[n] if quick else {2: 60, 3: 40, 4: 20}[n]
        for k in range(reps):
            circ = circs[k % len(circs)]
            pe = k % n
            po = rng.choice(list(ej.nonempty_subsets(n)))
            cap = [1, 2, 0][k % 3] if k % 4 else 1
            pol = ej.policy(rng, n, ej.POLICIES[k % len(ej.POLICIES)])
            jobs.append(ej.job(f"sch.n{n}.{k}", circ, ej.rand_inputs(rng, circ), pe, po, cap=cap, pol=pol))
    # a two-batch run under adversarial schedulers
    for k, kind in enumerate(["Newest", "Starve", "PreferSend"] if quick else ej.POLICIES):
        c = ej.and_chain(2, 1001)
        jobs.append(ej.job(f"sch.big.{k}", c, ej.rand_inputs(rng, c), k % 2, [0, 1], cap=1, pol=ej.policy(rng, 2, kind)))
    # a wide circuit (more than 1024 registers: the per-register vectors of the online phase get long), every party an
    # output party, 1-slot channels
    for n in (2,) if quick else (2, 3):
        c = ej.wide_circuit(n)
        for k, kind in enumerate(["Oldest", "Newest", "Random"] if quick else ej.POLICIES):
            jobs.append(ej.job(f"sch.wide.n{n}.{k}", c, ej.rand_inputs(rng, c), k % n, list(range(n)), cap=1, pol=ej.policy(rng, n, kind)))
    # (2) schedules enumerated by TLC on the spec (real constants) replayed on the code
    nsched = 0
    targets = [(2, ej.fixed_small(2)[1], 1, [0, 1], 1, 25 if quick else 200),
               (2, ej.fixed_small(2)[1], 0, [1], 2, 10 if quick else 100),
               (2, ej.and_chain(2, 1001), 0, [0], 1, 4 if quick else 30),
               (3, ej.fixed_small(3)[2], 2, [0, 1], 1, 10 if quick else 100)]
    if not quick:
        targets.append((3, ej.fixed_small(3)[1], 0, [0, 1, 2], 0, 60))
        targets.append((4, ej.fixed_small(4)[0], 3, [1], 1, 30))
    for ti, (n, circ, pe, po, cap, num) in enumerate(targets):
        scheds = tlc_schedules(wd, circ_cfg(circ, n, pe, po), cap, num, f"sim{ti}", v.seed * 100 + ti)
        for si, sc in enumerate(scheds):
            jobs.append(ej.job(f"tlc.{ti}.{si}", circ, ej.rand_inputs(rng, circ), pe, po, cap=cap,
                               pol={"kind": "Script", "steps": sc, "seed": si}))
            nsched += 1
    out = run_jobs(jobs, wd)
    lines_end = [l for l in vlib.read_ndjson_filtered(out, '"ev":"end"')]
    drift = sum(e["drift"] for e in lines_end)
    if drift:
        v.spec_drift(f"{drift} scheduled steps of TLC behaviours were not enabled in the real engine")
    res = vlib.tlc_trace("Mon_C12", vlib.MON_CFG, out, wd)
    report_monitor(v, res, jobs)
    res4 = vlib.tlc_trace("Mon_C04b", vlib.MON_CFG, out, wd)
    ok, tres = detailed_conformance(v, out, wd)
    # (3) all interleavings of the scaled model
    states = trans = 0
    mcs = []
    plan = [(2, ej.fixed_small(2)[1], 0, 1), (2, ej.fixed_small(2)[1], 1, 2), (2, ej.and_chain(2, 2), 0, 0),
            (3, ej.fixed_small(3)[2], 1, 1)]
    if not quick:
        plan += [(3, ej.fixed_small(3)[2], 0, 2), (3, ej.fixed_small(3)[1], 2, 1), (3, ej.fixed_small(3)[2], 2, 0)]
    for (n, circ, pe, cap) in plan:
        r = mc_sched(wd, circ_cfg(circ, n, pe, list(range(n))), scaled_consts(cap), name=f"mc{n}{pe}{cap}",
                     workers=8, timeout=3000)
        if not r["ok"]:
            raise vlib.ToolError("MC_Sched reports an error on the spec:\n" + vlib.strip_tlc(r["out"])[-2000:])
        states += r["distinct"]
        trans += r["generated"]
        mcs.append({"n": n, "pe": pe, "cap": cap, "distinct": r["distinct"]})
    v.coverage = {
        "states": states, "transitions": trans,
        "traces_validated_against_impl": len(jobs) if ok else 0,
        "samples": [{"job": jobs[0]["id"], "policy": jobs[0]["policy"], "cap": jobs[0]["cap"]},
                    {"job": jobs[-1]["id"], "schedule_prefix": jobs[-1]["policy"]["steps"][:12]}],
        "evaluations": len(jobs), "tlc_schedules_replayed": nsched, "replay_drift": f"{drift} scheduled steps not enabled",
        "ops_checked": res["ops"], "reveals_checked": res4["checked"], "mc_runs": mcs,
        "rule": "every run is one real mpc() execution under a scheduler that decides each send/receive completion; "
                "Mon_C12 checks termination, results, FIFO pairing, queue bound, one outstanding op per peer/direction",
    }
    rc = v.finish()
    shutil.rmtree(wd, ignore_errors=True)
    return rc


REGISTRY = {"C01": check_C01, "C05": check_C05, "C09": check_C09, "C12": check_C12}

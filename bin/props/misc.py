"""C19 (FileOrMemBuf), C18 (argument validation): small specifications whose
TLC-enumerated behaviours are replayed one by one on the real code."""
import json
import os
import random
import shutil

import engine_jobs as ej
import vlib
from vlib import Verdict, log


def fb_cfg(wd, name, C, maxops, record, seek=True, invs=True, export=False, view=True):
    p = f"{wd}/{name}.cfg"
    with open(p, "w") as f:
        f.write(f"SPECIFICATION Spec\nCONSTANTS\n  C = {C}\n  MaxOps = {maxops}\n  SEEK = {'TRUE' if seek else 'FALSE'}\n"
                f"  RecordHist = {'TRUE' if record else 'FALSE'}\n")
        if invs:
            for i in ("FileComplete", "WriteAtEnd", "ItemsAgree", "ChunkItemsAgree", "BoundariesAgree"):
                f.write(f"INVARIANT {i}\n")
        if export:
            f.write("INVARIANT Export\n")
        if view and not record:
            f.write("VIEW view\n")
        f.write("CHECK_DEADLOCK FALSE\n")
    return p


def fb_scripts(r):
    out, seen = [], set()
    for line in r["out"].splitlines():
        if line.startswith('"REPLAY ') and line not in seen:
            seen.add(line)
            out.append(json.loads(json.loads(line)[len("REPLAY "):]))
    return out


def check_C19(tier, replay):
    v = Verdict("C19", tier, "model_checking")
    wd = vlib.workdir("C19")
    q = tier == "quick"
    rng = random.Random(f"c19-{v.seed}")
    if replay:
        with open(replay) as f:
            rp = json.load(f)
        jobs = [rp["replay"]["job"]]
        states = trans = 1
        exh = []
    else:
        # (1) the specification: both variants agree, for ALL operation sequences up to the bound
        states = trans = 0
        exh = []
        for (C, maxops) in ([(2, 8)] if q else [(2, 9), (1, 10), (3, 8)]):
            r = vlib.run_tlc("MC_FileBuf", fb_cfg(wd, f"mc{C}", C, maxops, False), wd, workers=8, timeout=2400)
            if not r["ok"]:
                raise vlib.ToolError("MC_FileBuf reports an error:\n" + vlib.strip_tlc(r["out"])[-2000:])
            states += r["distinct"]
            trans += r["generated"]
            exh.append({"C": C, "max_ops": maxops, "distinct": r["distinct"]})
        # the spec can tell the difference: without the seek-on-drop the invariants fail
        r = vlib.run_tlc("MC_FileBuf", fb_cfg(wd, "neg", 2, 7, False, seek=False), wd, workers=4, timeout=600)
        if r["ok"]:
            raise vlib.ToolError("negative control failed: FileBuf without seek-on-drop satisfies the invariants")
        # (2) every behaviour up to a smaller bound + simulated long ones, replayed on the real buffer
        jobs = []
        for (C, maxops) in ([(2, 4)] if q else [(2, 5), (1, 6)]):
            r = vlib.run_tlc("MC_FileBuf", fb_cfg(wd, f"ex{C}", C, maxops, True, invs=False, export=True), wd,
                             workers=1, timeout=1200)
            for i, ops in enumerate(fb_scripts(r)):
                jobs.append({"id": f"ex.C{C}.{i}", "c": C, "ops": ops})
        for (C, num) in ([(2, 1500), (3, 500)] if q else [(2, 20000), (3, 8000), (1, 4000), (5, 4000)]):
            r = vlib.run_tlc("MC_FileBuf", fb_cfg(wd, f"sim{C}", C, 12, True, invs=False, export=True), wd, workers=1,
                             timeout=1200, simulate=f"num={num}", extra=["-depth", "14", "-seed", str(v.seed + C)])
            for i, ops in enumerate(fb_scripts(r)):
                jobs.append({"id": f"sim.C{C}.{i}", "c": C, "ops": ops})
        # sizes that cross the BufWriter / BufReader capacity (8 KiB = 1024 items): the
        # writer flushes by itself and the reader's read-ahead stops inside the file
        for i in range(8 if q else 60):
            C = rng.choice([600, 1100, 1500])
            ops = []
            for _ in range(rng.randint(1, 3)):
                for _ in range(rng.randint(1, 3)):
                    ops.append({"op": "append", "k": rng.choice([C, C, rng.randint(1, 3 * C)])})
                if rng.random() < 0.5:
                    ops.append({"op": "iter", "k": 0})
                    ops += [{"op": "next", "k": 0}] * rng.choice([0, 1, C + 1, 2 * C])
                    ops.append({"op": "dropiter", "k": 0})
                else:
                    ops.append({"op": "chunks", "k": C})
                    ops += [{"op": "nextchunk", "k": 0}] * rng.randint(0, 5)
                    ops.append({"op": "dropchunks", "k": 0})
            jobs.append({"id": f"big.{i}", "c": C, "ops": ops})
    out = vlib.run_pt("filebuf", jobs, wd, name="fb")
    res = vlib.tlc_trace("Mon_C19", vlib.MON_CFG, out, wd, depth_first=False, timeout=2400)
    jb = {j["id"]: j for j in jobs}
    for x in res.get("viol", []):
        v.violation("C19: " + x["what"].split(":")[0].split(" (")[0], {"kind": "filebuf-job", "job": jb[x["run"]]},
                    f"script {x['run']}: {x['what']}")
    # (3) the engine-level clause: results, traffic and leftovers do not depend on the per-party choice
    eng = 0
    if not replay:
        groups = []
        for (n, a) in ([(2, 3), (2, 1001)] if q else [(2, 3), (3, 5), (2, 1001), (3, 1001), (2, 2001)]):
            c = ej.and_chain(n, a)
            inputs = ej.rand_inputs(rng, c)
            pats = [[bool((m >> i) & 1) for i in range(n)] for m in range(1 << n)]
            pe = rng.randrange(n)
            g = [ej.job(f"tmp.n{n}.a{a}.{k}", c, inputs, pe, [0], tmp=t, cap=1, pol=ej.policy(rng, n),
                        tag={"grp": f"tmp.n{n}.a{a}"}) for k, t in enumerate(pats)]
            groups.append(g)
        ejobs = [j for g in groups for j in g]
        eout = vlib.run_pt("engine", ejobs, wd, name="eng")
        r1 = vlib.tlc_trace("Mon_C01", vlib.MON_CFG, _light(eout, wd), wd, name="mon1")
        r9 = vlib.tlc_trace("Mon_C09", vlib.MON_CFG, _noposts(eout, wd), wd, name="mon9")
        ejb = {j["id"]: j for j in ejobs}
        for x in r1.get("viol", []) + r9.get("viol", []):
            v.violation("C19: engine run depends on the tmp_dir choice (" + x["what"].split(":")[0] + ")",
                        {"kind": "engine-job", "job": ejb.get(x["run"])}, f"run {x['run']}: {x['what']}")
        eng = len(ejobs)
    distinct = len({json.dumps(j["ops"]) for j in jobs})
    v.coverage = {
        "states": max(states, 1), "transitions": max(trans, 1),
        "traces_validated_against_impl": res["checked"],
        "samples": [jobs[0], jobs[-1]] if len(str(jobs[-1])) < 3000 else [jobs[0]],
        "evaluations": len(jobs) + eng, "distinct_nontrivial": distinct,
        "rule": "each script is one behaviour of FileBuf.tla (all behaviours up to a small bound, simulated ones up to "
                "12 operations, random large-size ones) replayed on FileOrMemBuf<u64> in memory and on file; distinct = "
                "different operation sequences",
        "exhaustive_configs": exh, "engine_runs_all_tmp_assignments": eng,
    }
    v.assumptions = ["items are distinguishable consecutive integers; element type u64"]
    rc = v.finish()
    shutil.rmtree(wd, ignore_errors=True)
    return rc


def _light(src, wd):
    dst = f"{wd}/light.ndjson"
    with open(src) as f, open(dst, "w") as g:
        for line in f:
            if '"ev":"s"' not in line and '"ev":"e"' not in line:
                g.write(line)
    return dst


def _noposts(src, wd):
    dst = f"{wd}/ops.ndjson"
    with open(src) as f, open(dst, "w") as g:
        for line in f:
            if '"ev":"s"' not in line:
                g.write(line)
    return dst


# ---------------------------------------------------------------------------
# C18

FIXV_FILE = vlib.SPEC + "/fixes_validate.json"


def base_circuit(n):
    insts = []
    for p in range(n):
        insts.append(ej.inst("I", p, 0, 2 * p))
        insts.append(ej.inst("I", p, 1, 2 * p + 1))
    k = 2 * n
    insts += [ej.inst("A", 0, 2, k), ej.inst("X", k, 1, k + 1), ej.inst("N", k + 1, 0, k + 1)]
    return {"input_regs": [2] * n, "insts": insts, "max_reg": k + 2, "output_regs": [k + 1, k], "and_ops": 1}


def bad_circuit(n, cls):
    c = json.loads(json.dumps(base_circuit(n)))
    k = 2 * n
    if cls == "badreg":
        c["insts"][k + 1]["a"] = c["max_reg"] + 3
    elif cls == "badoutreg":
        c["output_regs"] = [k + 1, c["max_reg"] + 2]
    elif cls == "read_before_write":
        c["max_reg"] += 1
        c["insts"][k + 1]["b"] = c["max_reg"] - 1
    elif cls == "noinputs":
        c = {"input_regs": [0] * n, "insts": [], "max_reg": 1, "output_regs": [0], "and_ops": 0}
    elif cls == "nooutputs":
        c["output_regs"] = []
    elif cls == "input_wrong_reg":
        c["insts"][1]["out"] = 0
    elif cls == "ands_minus":
        c["and_ops"] = 0
    elif cls == "ands_plus":
        c["and_ops"] = 2
    elif cls == "input_after_gate":
        # the last Input instruction moves behind the gates (its register = its position, as the library demands)
        last = c["insts"].pop(k - 1)
        for i in c["insts"][k - 1:]:
            i["out"] = i["out"] - 1
            if i["op"] != "I":
                i["a"] = i["a"] - 1 if i["a"] >= k - 1 else i["a"]
                i["b"] = i["b"] - 1 if i["b"] >= k - 1 else i["b"]
        last["out"] = len(c["insts"])
        c["insts"].append(last)
        c["max_reg"] = max(c["max_reg"], last["out"] + 1)
        c["output_regs"] = [k, k - 1]
    elif cls == "surplus_input":
        extra = ej.inst("I", 0, 0, k)
        c["insts"].insert(k, extra)
        for i in c["insts"][k + 1:]:
            i["out"] += 1
            i["a"] = i["a"] + 1 if i["a"] >= k else i["a"]
            i["b"] = i["b"] + 1 if i["b"] >= k and i["op"] != "N" else i["b"]
        c["max_reg"] += 1
        c["output_regs"] = [r + 1 for r in c["output_regs"]]
    elif cls == "missing_input":
        c["input_regs"][n - 1] = 3
    elif cls == "input_party_oob":
        c["insts"][1]["a"] = n + 2
    elif cls == "input_idx_oob":
        c["insts"][1]["b"] = 5
    elif cls == "input_party_eq_n":
        c["insts"][1]["a"] = n
    elif cls == "input_idx_eq_len":
        c["insts"][1]["b"] = 2
    elif cls == "dup_input":
        c["insts"][1]["b"] = 0
    return c


def c18_job(jid, row, demand, predicted, rng):
    n, x = row["n"], row["x"]
    base = base_circuit(n)
    pe = x if row["xeval"] else (x + 1) % n
    po = [0, n - 1] if n > 2 else [0, 1]
    inputs = ej.rand_inputs(rng, base)
    ov = {"party": x}
    all_ov = None
    if row["own"] != "ok":
        ov["p_own"] = n if row["own"].startswith("eq_n") else n + 7
        if row["own"].endswith("_noinputs"):
            ov["inputs"] = []
    if row["pe"] != "ok":
        ov["p_eval"] = n if row["pe"] == "eq_n" else 1000
    if row["po"] == "unsorted":
        ov["p_out"] = list(reversed(po))
    elif row["po"] == "empty":
        ov["p_out"] = []
    elif row["po"] == "has_n":
        ov["p_out"] = [0, n]
    elif row["po"] == "has_far":
        ov["p_out"] = [0, 99]
    elif row["po"] == "has_n_first":
        ov["p_out"] = [n, 0]
    elif row["po"] == "has_far_mid":
        ov["p_out"] = [1, 7 + n, 0]
    elif row["po"] == "dup":
        po = [1, 1]
    elif row["po"] == "dup_unsorted":
        po = [n - 1, 0, n - 1]
    if row["inp"] == "minus1":
        ov["inputs"] = inputs[x][:-1]
    elif row["inp"] == "plus1":
        ov["inputs"] = inputs[x] + [True]
    elif row["inp"] == "none":
        ov["inputs"] = []
    overrides = []
    if row["circ"] != "ok":
        bc = bad_circuit(n, row["circ"])
        if demand == "nopanic":
            # a circuit is a public parameter: every party runs the inconsistent description
            for p in range(n):
                o = {"party": p, "circuit": bc}
                if row["circ"] == "missing_input" and p == n - 1:
                    o["inputs"] = inputs[p] + [False]
                overrides.append(o)
        else:
            ov["circuit"] = bc
    if len(ov) > 1:
        overrides = [o for o in overrides if o["party"] != x] + [dict(next((o for o in overrides if o["party"] == x), {}), **ov)]
    return ej.job(jid, base, inputs, pe, po, cap=1, pol=ej.policy(rng, n), overrides=overrides,
                  tag={"row": row, "demand": demand, "predicted": predicted})


def check_C18(tier, replay):
    v = Verdict("C18", tier, "fault_enumeration")
    wd = vlib.workdir("C18")
    rng = random.Random(f"c18-{v.seed}")
    if replay:
        with open(replay) as f:
            jobs = [json.load(f)["replay"]["job"]]
        rows = []
    else:
        cfg = f"{wd}/args.cfg"
        with open(cfg, "w") as f:
            f.write("SPECIFICATION Spec\nCONSTANT FIXV <- MCFIXV\nINVARIANT RejectedUpFront\nINVARIANT DuplicatesHandled\n"
                    "INVARIANT Export\nCHECK_DEADLOCK FALSE\n")
        r = vlib.run_tlc("MC_MpcArgs", cfg, wd, env={"CFG": FIXV_FILE}, workers=1, timeout=600)
        if not r["ok"]:
            raise vlib.ToolError("MpcArgs: the decision table of the tree does not imply what C18 demands:\n"
                                 + vlib.strip_tlc(r["out"])[-1500:])
        rows = []
        for line in r["out"].splitlines():
            if line.startswith('"REPLAY '):
                rows.append(json.loads(json.loads(line)[len("REPLAY "):]))
        reps = 1 if tier == "quick" else 3
        jobs = []
        for i, rw in enumerate(rows):
            for k in range(reps):
                jobs.append(c18_job(f"a{i}.{k}", rw["row"], rw["demand"], rw["predicted"], rng))
    out = vlib.run_pt("engine", jobs, wd, name="args")
    res = vlib.tlc_trace("Mon_C18", vlib.MON_CFG, out, wd, depth_first=False, timeout=1800)
    jb = {j["id"]: j for j in jobs}
    for x in res.get("viol", []):
        j = jb[x["run"]]
        rw = j["tag"]["row"]
        dev = next((f"{f}={rw[f]}" for f in ("own", "pe", "po", "inp", "circ") if rw[f] != "ok"), "valid")
        v.violation(f"C18: {dev}: {x['what'].split(':')[0]}", {"kind": "engine-job", "job": j},
                    f"run {x['run']} (n={rw['n']}, party {rw['x']}, {dev}): {x['what']}")
    # prediction of the tree's decision table vs. what the code did (drift only)
    ends = {}
    drift = 0
    for e in vlib.read_ndjson_filtered(out, '"ev":"res"'):
        pass
    classes = {(j["tag"]["demand"], next((f"{f}={j['tag']['row'][f]}" for f in ("own", "pe", "po", "inp", "circ")
                                         if j["tag"]["row"][f] != "ok"), "valid"), j["tag"]["row"]["n"],
                j["tag"]["row"]["xeval"]) for j in jobs}
    v.coverage = {
        "evaluations": len(jobs), "distinct_nontrivial": len(classes),
        "rule": "one real mpc() run per row of the MpcArgs decision table (n, party x, x is evaluator or not, one argument "
                "class deviating); distinct = (demand, deviating class, n, role) tuples",
        "samples": [{"row": jobs[0]["tag"]["row"], "demand": jobs[0]["tag"]["demand"]},
                    {"row": jobs[len(jobs) // 2]["tag"]["row"], "demand": jobs[len(jobs) // 2]["tag"]["demand"],
                     "overrides": jobs[len(jobs) // 2]["overrides"]}],
        "table_rows": len(rows), "runs_judged": res["checked"], "exhaustive": True,
    }
    v.assumptions = ["argument classes represent their members (boundary and far-out values are separate classes)"]
    rc = v.finish()
    shutil.rmtree(wd, ignore_errors=True)
    return rc


REGISTRY = {"C19": check_C19, "C18": check_C18}

"""Registry: property id -> check function(tier, replay_path) -> exit code."""
from . import engine

REGISTRY = {}
REGISTRY.update(engine.REGISTRY)

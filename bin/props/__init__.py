"""Registry: property id -> check function(tier, replay_path) -> exit code."""
from . import adv, engine, misc, numeric, server

REGISTRY = {}
REGISTRY.update(engine.REGISTRY)
REGISTRY.update(server.REGISTRY)
REGISTRY.update(misc.REGISTRY)
REGISTRY.update(adv.REGISTRY)
REGISTRY.update(numeric.REGISTRY)

"""C10 (preprocessing relations), C11 (OT extension), C20 (primitives):
the real code is driven through verification wrappers, its inputs/outputs
are recorded as integers and TLC evaluates the defining relations on them."""
import json
import random
import shutil

import vlib
from vlib import Verdict


def _judge(v, prop, monitor, cfg, jobs, cmd, wd, keyfn):
    out = vlib.run_pt(cmd, jobs, wd, name=prop, timeout=7200)
    res = vlib.tlc_trace(monitor, cfg, out, wd, depth_first=False, timeout=3600)
    jb = {j["id"]: j for j in jobs}
    for x in res.get("viol", []):
        v.violation(f"{prop}: {keyfn(x)}", {"kind": f"{cmd}-job", "job": jb[x["run"]]}, f"run {x['run']}: {x['what']}")
    return res


def check_C10(tier, replay):
    v = Verdict("C10", tier, "model_checking")
    wd = vlib.workdir("C10")
    q = tier == "quick"
    rng = random.Random(f"c10-{v.seed}")
    if replay:
        with open(replay) as f:
            jobs = [json.load(f)["replay"]["job"]]
    else:
        jobs = []
        lens = [1, 2, 7, 8, 9, 127, 128, 129, 1000, 1001] if q else [1, 2, 3, 7, 8, 9, 127, 128, 129, 999, 1000, 1001, 3099, 3100, 5000]
        for n in (2, 3) if q else (2, 3, 4, 5):
            for l in lens:
                if n >= 4 and l > 1001:
                    continue
                # AND shares for as many pairs as a small batch allows (bucket size 5: 15 shares per triple)
                l_and = min(l // 2, 3 if q else 20) if l >= 2 else 0
                jobs.append({"kind": "Dist", "id": f"dist.n{n}.l{l}", "n": n, "l_rand": l, "l_and": l_and,
                             "seed": rng.randrange(1 << 30), "sample": 0 if l <= 1001 else 600})
            jobs.append({"kind": "Dist", "id": f"dist.n{n}.ands", "n": n, "l_rand": 2 * (40 if q else 250), "l_and": 40 if q else 250,
                         "seed": rng.randrange(1 << 30), "sample": 0})
        if not q:
            # bucket size 4 (>= 3100 triples in one batch)
            jobs.append({"kind": "Dist", "id": "dist.n2.bucket4", "n": 2, "l_rand": 6200, "l_and": 3100, "seed": 5, "sample": 400})
        for n in (2, 3) if q else (2, 3, 4, 5):
            for l, la in ((1, 0), (8, 4), (129, 64)) if q else ((1, 0), (2, 1), (8, 4), (129, 64), (1001, 500)):
                jobs.append({"kind": "Dealer", "id": f"dealer.n{n}.l{l}", "n": n, "l_rand": l, "l_and": la, "seed": 1})
    res = _judge(v, "C10", "Mon_C10", vlib.MON_CFG, jobs, "pre", wd, lambda x: x["what"].split(":")[0])
    v.coverage = {
        "states": max(res["checked"], 1), "transitions": max(res["checked"], 1),
        "traces_validated_against_impl": res["checked"],
        "samples": [jobs[0], jobs[-1]],
        "evaluations": len(jobs), "distinct_nontrivial": len({(j["kind"], j["n"], j["l_rand"], j["l_and"]) for j in jobs}),
        "relations_evaluated_by_tlc": res["relations"],
        "rule": "each evaluation = one real run of the distributed preprocessing (coin tossing, aShare, aAND, Beaver) or of the "
                "trusted dealer for (n, number of random shares, number of AND triples); TLC evaluates ShareRel for every ordered "
                "pair and every (sampled, for long batches) index, TripleRel for every triple and SameCoins",
    }
    v.assumptions = ["values exported by the verification wrappers are the values handed to the online phase",
                     "bucket size 3 (>= 280000 triples per batch) is not exercised"]
    rc = v.finish()
    shutil.rmtree(wd, ignore_errors=True)
    return rc


def check_C11(tier, replay):
    v = Verdict("C11", tier, "model_checking")
    wd = vlib.workdir("C11")
    q = tier == "quick"
    rng = random.Random(f"c11-{v.seed}")
    if replay:
        with open(replay) as f:
            jobs = [json.load(f)["replay"]["job"]]
    else:
        if q:
            ms = sorted(set(list(range(1, 41)) + [63, 64, 65, 127, 128, 129, 255, 256, 257, 1023, 1024, 1025, 4095, 4096]))
        else:
            ms = list(range(1, 4097))
        jobs = []
        for m in ms:
            for ch in (["random"] if (not q and m > 300 and m % 8 not in (0, 1, 7)) else ["zero", "one", "random"]):
                jobs.append({"kind": "Ot", "id": f"ot.m{m}.{ch}", "m": m, "choices": ch, "seed": rng.randrange(1 << 30),
                             "both": (m % 2 == 0) or m < 20 or ch == "random"})
    res = _judge(v, "C11", "Mon_C11", vlib.SPEC + "/MonReal.cfg", jobs, "pre", wd, lambda x: x["what"].split(":")[0])
    v.coverage = {
        "states": max(res["checked"], 1), "transitions": max(res["checked"], 1),
        "traces_validated_against_impl": res["checked"],
        "samples": [jobs[0], jobs[-1]],
        "evaluations": len(jobs), "distinct_nontrivial": len({(j["m"], j["choices"], j["both"]) for j in jobs}),
        "indices_checked_by_tlc": res["indices"],
        "rule": "each evaluation = one real KOS/ALSZ/Chou-Orlandi session pair (sender then, for `both`, receiver on the same "
                "channel and shared stream) of length m under the deterministic executor with 1-slot channels; TLC checks the "
                "OT relation at every index, result lengths, stream agreement and message sizes against the session skeleton",
    }
    v.assumptions = ["correlations and choice bits are drawn by the harness; base OTs are the real Chou-Orlandi implementation"]
    rc = v.finish()
    shutil.rmtree(wd, ignore_errors=True)
    return rc


def limbs(x):
    return [(x >> (16 * i)) & 0xffff for i in range(8)]


def check_C20(tier, replay):
    v = Verdict("C20", tier, "exploration")
    wd = vlib.workdir("C20")
    q = tier == "quick"
    rng = random.Random(f"c20-{v.seed}")
    if replay:
        with open(replay) as f:
            jobs = [json.load(f)["replay"]["job"]]
    else:
        jobs = []
        # transpose: 128 x c for c in 16, 24, .., 4096 (all positions for small c, sampled above), other row counts, unaligned
        cols = list(range(16, 4097, 8))
        for c in (cols[::16] + [128, 136, 504, 512, 520, 1024, 4096] if q else cols):
            small = c <= (64 if q else 256)
            jobs.append({"kind": "Transpose", "id": f"tr.128x{c}", "rows": 128, "cols": c, "seed": rng.randrange(1 << 30),
                         "offset": rng.choice([0, 0, 1, 3, 8]), "sample": 0 if small else (300 if q else 2000)})
        for i in range(6 if q else 60):
            r = 128 * rng.randint(2, 6)
            c = 8 * rng.randint(2, 80)
            jobs.append({"kind": "Transpose", "id": f"tr.r{i}", "rows": r, "cols": c, "seed": i, "offset": rng.choice([0, 5]),
                         "sample": 400 if q else 3000})
        # clmul: basis pairs, sparse / dense / all ones / random
        pairs = [(i, j) for i in range(128) for j in range(128)]
        for (i, j) in (rng.sample(pairs, 120) + [(0, 0), (127, 127), (63, 64), (64, 63), (0, 127)] if q else pairs):
            jobs.append({"kind": "Clmul", "id": f"cl.x{i}.x{j}", "a": limbs(1 << i), "b": limbs(1 << j)})
        full = (1 << 128) - 1
        special = [0, 1, full, full >> 1, 1 << 127, (1 << 64) - 1, full ^ ((1 << 64) - 1), 0x87, (1 << 127) | 1]
        for a in special:
            for b in special:
                jobs.append({"kind": "Clmul", "id": f"cl.s{special.index(a)}.{special.index(b)}", "a": limbs(a), "b": limbs(b)})
        for i in range(60 if q else 2000):
            jobs.append({"kind": "Clmul", "id": f"cl.r{i}", "a": limbs(rng.getrandbits(128)), "b": limbs(rng.getrandbits(128))})
        for i in range(60 if q else 1000):
            jobs.append({"kind": "Hash", "id": f"h{i}", "seed": rng.randrange(1 << 30) * 7 + (0 if i % 5 == 0 else 1)})
        for n in (list(range(0, 70)) + [127, 128, 129, 255, 256, 257, 1023, 1024, 1099, 1100] if q else range(0, 1101)):
            jobs.append({"kind": "Rng", "id": f"g{n}", "seed": rng.randrange(1 << 30), "lens": [n]})
    res = _judge(v, "C20", "Mon_C20", vlib.MON_CFG, jobs, "prims", wd, lambda x: x["what"])
    kinds = {}
    for j in jobs:
        kinds[j["kind"]] = kinds.get(j["kind"], 0) + 1
    v.coverage = {
        "evaluations": len(jobs), "distinct_nontrivial": len({json.dumps({k: j[k] for k in j if k != "id"}, sort_keys=True) for j in jobs}),
        "rule": "each evaluation = one recorded call of a primitive through both code paths (dispatching and portable/scalar), "
                "checked by TLC against the definition in Prims.tla; distinct = different inputs",
        "samples": [jobs[0], next(j for j in jobs if j["kind"] == "Clmul"), next(j for j in jobs if j["kind"] == "Rng")],
        "by_kind": kinds, "records_checked_by_tlc": res["checked"],
    }
    v.assumptions = ["AES-128 itself (the aes crate) is trusted; pi is supplied as a table",
                     "large matrices are checked on full border rows/columns, a seeded sample of positions and population counts"]
    rc = v.finish()
    shutil.rmtree(wd, ignore_errors=True)
    return rc


REGISTRY = {"C10": check_C10, "C11": check_C11, "C20": check_C20}

"""C10 (preprocessing relations), C11 (OT extension), C20 (primitives):
the real code is driven through verification wrappers, its inputs/outputs
are recorded as integers and TLC evaluates the defining relations on them."""
import json
import os
import random
import shutil

import vlib
from vlib import Verdict


def _judge(v, prop, monitor, cfg, jobs, cmd, wd, keyfn, weight=None, budget=200000):
    """Run the jobs and hand the records to the TLC monitor, in chunks of bounded weight (TLC loads a whole
    trace file into memory), four TLC processes at a time."""
    from concurrent.futures import ThreadPoolExecutor
    chunks, cur, w = [], [], 0
    for j in jobs:
        wj = weight(j) if weight else 1
        if cur and w + wj > budget:
            chunks.append(cur)
            cur, w = [], 0
        cur.append(j)
        w += wj
    if cur:
        chunks.append(cur)

    def one(ci):
        out = vlib.run_pt(cmd, chunks[ci], wd, name=f"{prop}.{ci}", timeout=7200, threads=8)
        r = vlib.tlc_trace(monitor, cfg, out, wd, depth_first=False, timeout=3600, name=f"{monitor}.{ci}")
        os.remove(out)
        return r

    with ThreadPoolExecutor(4) as ex:
        results = list(ex.map(one, range(len(chunks))))
    jb = {j["id"]: j for j in jobs}
    total = {}
    for res in results:
        for x in res.get("viol", []):
            v.violation(f"{prop}: {keyfn(x)}", {"kind": f"{cmd}-job", "job": jb[x["run"]]}, f"run {x['run']}: {x['what']}")
        for k, val in res.items():
            if isinstance(val, int):
                total[k] = total.get(k, 0) + val
    total["tlc_runs"] = len(chunks)
    return total


def check_C10(tier, replay):
    v = Verdict("C10", tier, "model_checking")
    wd = vlib.workdir("C10")
    q = tier == "quick"
    rng = random.Random(f"c10-{v.seed}")
    if replay:
        with open(replay) as f:
            jobs = [json.load(f)["replay"]["job"]]
    else:
        jobs = []
        lens = [1, 2, 7, 8, 9, 127, 128, 129, 1000, 1001] if q else [1, 2, 3, 7, 8, 9, 127, 128, 129, 999, 1000, 1001, 3099, 3100, 5000]
        for n in (2, 3) if q else (2, 3, 4, 5):
            for l in lens:
                if n >= 4 and l > 1001:
                    continue
                # AND shares for as many pairs as a small batch allows (bucket size 5: 15 shares per triple)
                l_and = min(l // 2, 3 if q else 20) if l >= 2 else 0
                jobs.append({"kind": "Dist", "id": f"dist.n{n}.l{l}", "n": n, "l_rand": l, "l_and": l_and,
                             "seed": rng.randrange(1 << 30), "sample": 0 if l <= 1001 else 600})
            jobs.append({"kind": "Dist", "id": f"dist.n{n}.ands", "n": n, "l_rand": 2 * (40 if q else 250), "l_and": 40 if q else 250,
                         "seed": rng.randrange(1 << 30), "sample": 0})
        # one long AND batch (message chunking / index arithmetic beyond small powers of two)
        jobs.append({"kind": "Dist", "id": "dist.n2.longbatch", "n": 2, "l_rand": 4400, "l_and": 2200, "seed": 9, "sample": 300})
        # bucket size 4 (>= 3100 triples in one batch)
        jobs.append({"kind": "Dist", "id": "dist.n2.bucket4", "n": 2, "l_rand": 6200, "l_and": 3100, "seed": 5, "sample": 400})
        if not q:
            jobs.append({"kind": "Dist", "id": "dist.n3.longbatch", "n": 3, "l_rand": 5000, "l_and": 2500, "seed": 9, "sample": 300})
            jobs.append({"kind": "Dist", "id": "dist.n3.bucket4", "n": 3, "l_rand": 6200, "l_and": 3100, "seed": 6, "sample": 400})
        # the trusted dealer for every party count of the statement (it costs next to nothing), also in the quick tier
        for n in (2, 3, 4, 5):
            for l, la in ((1, 0), (8, 4), (129, 64)) if q else ((1, 0), (2, 1), (8, 4), (129, 64), (1001, 500)):
                jobs.append({"kind": "Dealer", "id": f"dealer.n{n}.l{l}", "n": n, "l_rand": l, "l_and": la, "seed": 1})
        if q:
            # ... and one short distributed batch each for n = 4, 5 (sums over "the other parties" differ from n = 2, 3
            # only there: an even / odd number of terms, more than two of them)
            for n, l, la in ((4, 9, 3), (5, 8, 2)):
                jobs.append({"kind": "Dist", "id": f"dist.n{n}.l{l}", "n": n, "l_rand": l, "l_and": la,
                             "seed": rng.randrange(1 << 30), "sample": 0})
    res = _judge(v, "C10", "Mon_C10", vlib.MON_CFG, jobs, "pre", wd, lambda x: x["what"].split(":")[0],
                 weight=lambda j: j["n"] * j["n"] * (min(j["l_rand"], j.get("sample") or j["l_rand"]) + 3 * j["l_and"]), budget=120000)
    pm, pstates = ({}, 0)
    if not replay:
        from . import adv
        pm, pstates = adv.pre_model(v, tier, wd, "C10")
    v.coverage = {
        "states": max(res["checked"], 1) + pstates, "transitions": max(res["checked"], 1) + pstates,
        "traces_validated_against_impl": res["checked"],
        "samples": [jobs[0], jobs[-1]],
        "evaluations": len(jobs), "distinct_nontrivial": len({(j["kind"], j["n"], j["l_rand"], j["l_and"]) for j in jobs}),
        "relations_evaluated_by_tlc": res["relations"],
        "rule": "each evaluation = one real run of the distributed preprocessing (coin tossing, aShare, aAND, Beaver) or of the "
                "trusted dealer for (n, number of random shares, number of AND triples); TLC evaluates ShareRel for every ordered "
                "pair and every (sampled, for long batches) index, TripleRel for every triple and SameCoins; the symbolic "
                "model Wrk17Pre (leaky AND, bucket combination, Beaver) is checked exhaustively for HonestCorrect / "
                "PassImpliesCorrect over all share bits",
    }
    v.coverage.update(pm)
    v.assumptions = ["values exported by the verification wrappers are the values handed to the online phase",
                     "bucket size 3 (>= 280000 triples per batch) is not exercised"]
    rc = v.finish()
    shutil.rmtree(wd, ignore_errors=True)
    return rc


def check_C11(tier, replay):
    v = Verdict("C11", tier, "model_checking")
    wd = vlib.workdir("C11")
    q = tier == "quick"
    rng = random.Random(f"c11-{v.seed}")
    if replay:
        with open(replay) as f:
            jobs = [json.load(f)["replay"]["job"]]
    else:
        if q:
            ms = sorted(set(list(range(1, 41)) + [63, 64, 65, 127, 128, 129, 255, 256, 257, 1023, 1024, 1025, 4095, 4096]))
        else:
            ms = list(range(1, 4097))
        jobs = []
        for m in ms:
            for ch in (["random"] if (not q and m > 300 and m % 8 not in (0, 1, 7)) else ["zero", "one", "random"]):
                jobs.append({"kind": "Ot", "id": f"ot.m{m}.{ch}", "m": m, "choices": ch, "seed": rng.randrange(1 << 30),
                             "both": (m % 2 == 0) or m < 20 or ch == "random"})
        # "all correlation vectors": besides random blocks the all-zero vector, one block repeated (what the engine passes)
        # and vectors with zero / all-ones / one-bit entries mixed in
        for m in ([1, 2, 7, 8, 9, 40, 129, 1000, 1024] if q else [1, 2, 3, 4, 5, 7, 8, 9, 16, 40, 127, 128, 129, 500, 1000, 1024, 4096]):
            for corr in ("zero", "const", "sparse"):
                for ch in ("one", "random"):
                    jobs.append({"kind": "Ot", "id": f"ot.m{m}.{ch}.{corr}", "m": m, "choices": ch, "corr": corr,
                                 "seed": rng.randrange(1 << 30), "both": True})
    res = _judge(v, "C11", "Mon_C11", vlib.SPEC + "/MonReal.cfg", jobs, "pre", wd, lambda x: x["what"].split(":")[0],
                 weight=lambda j: j["m"] * (2 if j["both"] else 1), budget=150000)
    v.coverage = {
        "states": max(res["checked"], 1), "transitions": max(res["checked"], 1),
        "traces_validated_against_impl": res["checked"],
        "samples": [jobs[0], jobs[-1]],
        "evaluations": len(jobs), "distinct_nontrivial": len({(j["m"], j["choices"], j["both"], j.get("corr", "random")) for j in jobs}),
        "indices_checked_by_tlc": res["indices"],
        "rule": "each evaluation = one real KOS/ALSZ/Chou-Orlandi session pair (sender then, for `both`, receiver on the same "
                "channel and shared stream) of length m under the deterministic executor with 1-slot channels; TLC checks the "
                "OT relation at every index, result lengths, stream agreement and message sizes against the session skeleton",
    }
    v.assumptions = ["correlations and choice bits are drawn by the harness; base OTs are the real Chou-Orlandi implementation"]
    rc = v.finish()
    shutil.rmtree(wd, ignore_errors=True)
    return rc


def limbs(x):
    return [(x >> (16 * i)) & 0xffff for i in range(8)]


def check_C20(tier, replay):
    v = Verdict("C20", tier, "exploration")
    wd = vlib.workdir("C20")
    q = tier == "quick"
    rng = random.Random(f"c20-{v.seed}")
    if replay:
        with open(replay) as f:
            jobs = [json.load(f)["replay"]["job"]]
    else:
        jobs = []
        # transpose: 128 x c for c in 16, 24, .., 4096 (all positions for small c, sampled above), other row counts, unaligned
        cols = list(range(16, 4097, 8))
        for c in (cols[::16] + [128, 136, 504, 512, 520, 1024, 4096] if q else cols):
            small = c <= (64 if q else 256)
            jobs.append({"kind": "Transpose", "id": f"tr.128x{c}", "rows": 128, "cols": c, "seed": rng.randrange(1 << 30),
                         "offset": rng.choice([0, 0, 1, 3, 8]), "sample": 0 if small else (300 if q else 2000)})
        for i in range(6 if q else 60):
            r = 128 * rng.randint(2, 6)
            c = 8 * rng.randint(2, 80)
            jobs.append({"kind": "Transpose", "id": f"tr.r{i}", "rows": r, "cols": c, "seed": i, "offset": rng.choice([0, 5]),
                         "sample": 400 if q else 3000})
        # clmul: basis pairs, sparse / dense / all ones / random
        pairs = [(i, j) for i in range(128) for j in range(128)]
        for (i, j) in (rng.sample(pairs, 120) + [(0, 0), (127, 127), (63, 64), (64, 63), (0, 127)] if q else pairs):
            jobs.append({"kind": "Clmul", "id": f"cl.x{i}.x{j}", "a": limbs(1 << i), "b": limbs(1 << j)})
        full = (1 << 128) - 1
        special = [0, 1, full, full >> 1, 1 << 127, (1 << 64) - 1, full ^ ((1 << 64) - 1), 0x87, (1 << 127) | 1]
        for a in special:
            for b in special:
                jobs.append({"kind": "Clmul", "id": f"cl.s{special.index(a)}.{special.index(b)}", "a": limbs(a), "b": limbs(b)})
        for i in range(60 if q else 2000):
            jobs.append({"kind": "Clmul", "id": f"cl.r{i}", "a": limbs(rng.getrandbits(128)), "b": limbs(rng.getrandbits(128))})
        for i in range(60 if q else 1000):
            jobs.append({"kind": "Hash", "id": f"h{i}", "seed": rng.randrange(1 << 30) * 7 + (0 if i % 5 == 0 else 1)})
        for n in (list(range(0, 70)) + [127, 128, 129, 255, 256, 257, 1023, 1024, 1099, 1100] if q else range(0, 1101)):
            jobs.append({"kind": "Rng", "id": f"g{n}", "seed": rng.randrange(1 << 30), "lens": [n]})
    res = _judge(v, "C20", "Mon_C20", vlib.MON_CFG, jobs, "prims", wd, lambda x: x["what"],
                 weight=lambda j: {"Transpose": 40, "Clmul": 4, "Hash": 1, "Rng": 2}[j["kind"]], budget=4000)
    kinds = {}
    for j in jobs:
        kinds[j["kind"]] = kinds.get(j["kind"], 0) + 1
    v.coverage = {
        "evaluations": len(jobs), "distinct_nontrivial": len({json.dumps({k: j[k] for k in j if k != "id"}, sort_keys=True) for j in jobs}),
        "rule": "each evaluation = one recorded call of a primitive through both code paths (dispatching and portable/scalar), "
                "checked by TLC against the definition in Prims.tla; distinct = different inputs",
        "samples": [jobs[0], next(j for j in jobs if j["kind"] == "Clmul"), next(j for j in jobs if j["kind"] == "Rng")],
        "by_kind": kinds, "records_checked_by_tlc": res["checked"],
    }
    v.assumptions = ["AES-128 itself (the aes crate) is trusted; pi is supplied as a table",
                     "large matrices are checked on full border rows/columns, a seeded sample of positions and population counts"]
    rc = v.finish()
    shutil.rmtree(wd, ignore_errors=True)
    return rc


REGISTRY = {"C10": check_C10, "C11": check_C11, "C20": check_C20}


# ---------------------------------------------------------------------------
# C06 / C07: transcripts of the real engine

import engine_jobs as ej  # noqa: E402


def input_circuit(n, k, outs=2):
    """k input bits per party; a little logic so that the run is a real one."""
    insts = []
    for p in range(n):
        for i in range(k):
            insts.append(ej.inst("I", p, i, p * k + i))
    r = n * k
    insts += [ej.inst("A", 0, k, r), ej.inst("X", r, 1 % (n * k), r + 1), ej.inst("N", r + 1, 0, r + 1)]
    return {"input_regs": [k] * n, "insts": insts, "max_reg": r + 2, "output_regs": [r + 1, r][:outs], "and_ops": 1}


ABIT_KEY = ("C06: the aBit consistency test discloses a parity of the returned share bits (its coefficient vectors are "
            "linearly dependent on the discarded positions)")


def abit_events(out, nparties):
    """Re-encode the probes / decoded messages of the fabitn calls of each run as one event per call for Mon_ABit
    (format conversion only: limbs -> positions)."""
    def val(v):
        return sum(x << (16 * i) for i, x in enumerate(v))
    evs = []
    cur, R, X, M = None, {}, {}, {}
    for r in vlib.read_ndjson(out):
        if r["ev"] == "cfg":
            cur, R, X, M = r["run"], {}, {}, {}
        elif r["ev"] == "probe" and r["name"] == "abit_r":
            R.setdefault(r["p"], []).append([val(v) for v in r["vals"]])
        elif r["ev"] == "probe" and r["name"] == "abit_x":
            X.setdefault(r["p"], []).append([val(v) for v in r["vals"]])
        elif r["ev"] == "msg" and r["ph"] == "fabitn":
            M.setdefault((r["from"], r["to"]), []).append(r["v"])
        elif r["ev"] == "end" and R:
            n = nparties[cur]
            ncalls = min(len(R[p]) for p in R)
            for call in range(ncalls):
                rv = R[0][call]
                l, lp = rv[0], rv[1]
                blocks = (lp + 127) // 128
                rows = []
                for t in range((len(rv) - 2) // blocks):
                    x = 0
                    for b in range(blocks):
                        x |= rv[2 + t * blocks + b] << (128 * b)
                    rows.append([k + 1 for k in range(lp) if (x >> k) & 1])
                parties = []
                for p in range(n):
                    msgs = M.get((p, (p + 1) % n), [])
                    if p not in X or call >= len(X[p]) or call >= len(msgs):
                        continue
                    xs = 0
                    for b, w in enumerate(X[p][call]):
                        xs |= w << (128 * b)
                    parties.append({"p": p, "ones": [k + 1 for k in range(lp) if (xs >> k) & 1],
                                    "xt": [1 if (e[0] is True or e[0] == 1) else 0 for e in msgs[call]]})
                evs.append({"ev": "abit", "run": cur, "call": call, "l": l, "lp": lp, "rows": rows, "parties": parties})
    return evs


def abit_model(wd, tier):
    """ABit.tla: the consistency test as linear algebra over GF(2), all coefficient choices of small sizes: DisclosureIsExact,
    MaskedIfFullRank, LeakBound (constant-level count), soundness invariants; negative control AlwaysHidden must fail for
    as many discarded bits as tests."""
    states = 0
    runs = []

    def mc(L, E, R, mode, extra=None):
        cp = f"{wd}/abit-{L}-{E}-{R}-{mode}-{extra}.cfg"
        with open(cp, "w") as f:
            f.write(f'SPECIFICATION Spec\nCONSTANTS\n L = {L}\n E = {E}\n R = {R}\n MODE = "{mode}"\n'
                    "INVARIANT MaskedIfFullRank\nINVARIANT DisclosureIsExact\nINVARIANT InconsistentPassOnlyIfOrthogonal\n"
                    "INVARIANT ConsistentPasses\nINVARIANT WrongValueRejected\nCHECK_DEADLOCK FALSE\n"
                    + (f"INVARIANT {extra}\n" if extra else ""))
        return vlib.run_tlc("ABit", cp, wd, workers=8, timeout=1500)
    plan = [(2, 2, 2, "secrecy"), (2, 3, 2, "secrecy"), (2, 4, 2, "secrecy"), (3, 2, 2, "secrecy"), (2, 1, 2, "soundness"),
            (2, 2, 2, "soundness")] + ([] if tier == "quick" else [(2, 3, 3, "secrecy"), (3, 3, 2, "secrecy"), (2, 2, 3, "soundness")])
    leaky = {}
    for (L, E, R, mode) in plan:
        r = mc(L, E, R, mode)
        if not r["ok"]:
            raise vlib.ToolError(f"ABit (L={L}, E={E}, R={R}, {mode}) reports an error:\n" + vlib.strip_tlc(r["out"])[-1500:])
        states += r["distinct"]
        runs.append({"config": f"L={L},E={E},R={R},{mode}", "distinct": r["distinct"]})
        for line in r["out"].splitlines():
            if line.startswith('<<"LEAKY"'):
                x = [int(t) for t in line.strip("<>").split(",")[1:]]
                leaky[f"L={x[0]},E={x[1]},R={x[2]}"] = f"{x[3]} of {x[4]} coefficient choices rank-deficient on the discarded positions"
    r = mc(2, 2, 2, "secrecy", extra="AlwaysHidden")
    if r["ok"] or "AlwaysHidden is violated" not in r["out"]:
        raise vlib.ToolError("negative control failed: ABit with as many discarded bits as tests satisfies AlwaysHidden")
    return {"states": states, "configs": runs, "rank_deficient_fraction": leaky, "negative_controls_failed_as_required": 1}


def abit_check(v, tier, wd, rng, replay_job=None):
    """C06, clause 'a share that it never discloses': Mon_ABit over the aBit tests of real honest runs, the ABit model, and
    a negative control (a recorded call of the pinned tree, findings/C06-abit-recorded-call.ndjson, must be flagged)."""
    q = tier == "quick"
    jobs = []
    if replay_job is not None:
        for r in range(12):
            jobs.append(dict(replay_job, id=f"{replay_job['id']}.rep{r}"))
    else:
        for n in (2, 3) if q else (2, 3, 4):
            for ci, c in enumerate([input_circuit(n, 2), ej.fixed_small(n)[1]]):
                for r in range(3 if q else 12):
                    jobs.append(ej.job(f"abit.n{n}.c{ci}.{r}", c, ej.rand_inputs(rng, c), r % n, [0], cap=1, pol=ej.policy(rng, n),
                                       events=False, probes=True, content_phases=["fabitn"], tag={"grp": "abit"}))
    # more executions of one small configuration, only for the history of the parties' own bit vectors (the bits that
    # mask the broadcast parities must be random: a position that holds the same value in every one of 40+ fresh vectors
    # is not)
    njudged = len(jobs)
    if replay_job is None:
        c = input_circuit(2, 2)
        for r in range(24 if q else 60):
            jobs.append(ej.job(f"abitx.{r}", c, ej.rand_inputs(rng, c), r % 2, [0], cap=1, pol=ej.policy(rng, 2), events=False,
                               probes=True, content_phases=["fabitn"], tag={"grp": "abitx"}))
    out = vlib.run_pt("engine", jobs, wd, name="c06abit", timeout=3600)
    allev = abit_events(out, {j["id"]: len(j["circuit"]["input_regs"]) for j in jobs})
    evs = [e for e in allev if not e["run"].startswith("abitx.")]
    samples = [{"ev": "abitx", "l": e["l"], "lp": e["lp"], "ones": p["ones"]} for e in allev for p in e["parties"]]
    tp = f"{wd}/c06abit.events.ndjson"
    with open(tp, "w") as f:
        for e in evs:
            f.write(json.dumps(e) + "\n")
        for e in samples:
            f.write(json.dumps(e) + "\n")
    res = vlib.tlc_trace("Mon_ABit", vlib.MON_CFG, tp, wd, depth_first=False, timeout=3600, name="Mon_ABit")
    jb = {j["id"]: j for j in jobs}
    for x in res.get("drift", []):
        v.spec_drift(f"Mon_ABit: run {x['run']} call {x['call']}: {x['what']}")
    seen = False
    for x in res.get("viol", []):
        if x.get("constant"):
            v.violation("C06: bits of a party's aBit vector (which mask the broadcast test parities) are constant across executions",
                        {"kind": "engine-history", "jobs": len(jobs), "seed": v.seed, "note": "rerun bin/check C06 with the same VERIF_SEED"},
                        f"positions {sorted(x['positions'])[:16]}{'...' if len(x['positions']) > 16 else ''} of the {x['lp']}-bit vectors "
                        f"(the first {x['l']} are returned) held the same value in all {x['samples']} fresh vectors of this check")
            continue
        if seen:
            break
        seen = True
        j = jb[x["run"]]
        base = dict(j, id=j["id"].split(".rep")[0])
        v.violation(ABIT_KEY, {"kind": "abit-job", "job": base, "note": "the coins differ from run to run: the replay repeats the job 12 times"},
                    f"run {x['run']}, fabitn call {x['call']} (l={x['l']}, l'={x['lp']}): the XOR of the broadcast test bits "
                    f"{x['tests'][:8]}... ({x['ntests']} tests) equals the parity of the party's returned bits at positions "
                    f"{x['positions'][:12]}{'...' if len(x['positions']) > 12 else ''}; confirmed on the recorded values: {x['confirmed']}; "
                    f"{res['leaking']} of {res['checked']} calls of this check leak")
    # negative control: a call recorded on the pinned tree
    neg = vlib.tlc_trace("Mon_ABit", vlib.MON_CFG, vlib.ROOT + "/findings/C06-abit-recorded-call.ndjson", wd, depth_first=False,
                         timeout=600, name="Mon_ABit_neg")
    if neg["leaking"] < 1 or not neg["viol"] or not neg["viol"][0]["confirmed"]:
        raise vlib.ToolError("negative control failed: Mon_ABit accepts the recorded call of the pinned tree")
    model = abit_model(wd, tier) if replay_job is None else {}
    return {"abit_calls_checked": res["checked"], "abit_calls_leaking": res["leaking"], "abit_runs": len(jobs),
            "abit_bit_vectors_in_history": len(samples), "abit_vector_classes": res.get("classes", 0),
            "abit_negative_control": "recorded call of the pinned tree flagged", "abit_model": model}


def check_C06(tier, replay):
    v = Verdict("C06", tier, "exploration")
    wd = vlib.workdir("C06")
    q = tier == "quick"
    rng = random.Random(f"c06-{v.seed}")
    if replay:
        with open(replay) as f:
            rp = json.load(f)["replay"]
        if rp.get("kind") == "abit-job":
            ab = abit_check(v, tier, wd, rng, replay_job=rp["job"])
            v.coverage = {"evaluations": ab["abit_runs"], "distinct_nontrivial": ab["abit_calls_checked"],
                          "rule": "replay of one job, repeated 12 times (fresh coins each time)", "samples": [rp["job"]["id"]]}
            v.coverage.update(ab)
            rc = v.finish()
            shutil.rmtree(wd, ignore_errors=True)
            return rc
    N = int(os.environ.get("VERIF_C06_N", 200 if q else 1000))
    jobs = []
    # balance groups: fixed inputs, N runs each; both values on every wire of the observed party
    for (n, h, pe) in ([(2, 0, 1), (3, 1, 1)] if q else [(2, 0, 1), (2, 1, 1), (3, 1, 1), (3, 2, 0), (4, 0, 2)]):
        c = input_circuit(n, 2)
        for xs in ([False, True], [True, False]):
            inputs = [[rng.random() < 0.5 for _ in range(2)] for _ in range(n)]
            inputs[h] = xs
            grp = f"bal.n{n}.h{h}.x{int(xs[0])}{int(xs[1])}"
            for r in range(N):
                jobs.append(ej.job(f"{grp}.{r}", c, inputs, pe, [0], cap=0, pol={"kind": "Oldest"}, events=False, probes=True,
                                   content_phases=["masked inputs", "wire shares"],
                                   tag={"grp": grp, "h": h, "canary": False, "reuse": False}))
    # canary: 128 random input bits of the observed party
    for r in range(20 if q else 100):
        n = 2
        h = r % 2
        c = input_circuit(n, 128, outs=1)
        inputs = [[rng.random() < 0.5 for _ in range(128)] for _ in range(n)]
        jobs.append(ej.job(f"canary.{r}", c, inputs, 0, [1], cap=0, pol={"kind": "Oldest"}, events=False, probes=True,
                           content_phases=["masked inputs", "wire shares"], canary=[h, inputs[h]],
                           tag={"grp": "canary", "h": h, "canary": True, "reuse": False}))
    # several preprocessing batches inside one run (more than 1000 random shares): own shares vs. disclosed shares
    for r in range(6 if q else 30):
        n = 2
        h = r % 2
        c = input_circuit(n, 600, outs=1)
        inputs = [[rng.random() < 0.5 for _ in range(600)] for _ in range(n)]
        jobs.append(ej.job(f"reuse.{r}", c, inputs, r % 2, [0], cap=0, pol={"kind": "Oldest"}, events=False, probes=True,
                           content_phases=["masked inputs", "wire shares"],
                           tag={"grp": "reuse", "h": h, "canary": True, "reuse": True}))
    # distinct wires carry independent masks: one observed party, one circuit with several batches of random shares,
    # 40 runs (Mon_C06: no two input wires with the same share of the party in every run)
    for h in ([1] if q else [0, 1]):
        c = input_circuit(2, 520, outs=1)
        inputs = [[rng.random() < 0.5 for _ in range(520)] for _ in range(2)]
        for r in range(40 if q else 48):
            jobs.append(ej.job(f"dupw.h{h}.{r}", c, inputs, (h + r) % 2, [0], cap=0, pol={"kind": "Oldest"}, events=False,
                               probes=True, content_phases=["masked inputs", "wire shares"],
                               tag={"grp": f"dupw.h{h}", "h": h, "canary": True, "reuse": False, "dupw": True}))
    out = vlib.run_pt("engine", jobs, wd, name="c06", timeout=7200)
    res = vlib.tlc_trace("Mon_C06", vlib.MON_CFG, out, wd, depth_first=False, timeout=3600)
    jb = {j["id"]: j for j in jobs}
    for x in res.get("viol", []):
        if x["run"] == "history":
            v.violation("C06: " + x["what"].split(":")[0], {"kind": "engine-history", "jobs": len(jobs), "seed": v.seed,
                                                            "note": "rerun bin/check C06 with the same VERIF_SEED"},
                        f"history of {len(jobs)} runs: {x['what']}")
        else:
            v.violation("C06: " + x["what"], {"kind": "engine-job", "job": jb[x["run"]]}, f"run {x['run']}: {x['what']}")
    # vacuity guard: the wire-history rule needs its 40 samples per group
    wh = res.get("wirehist") or {}
    for g in sorted({j["tag"]["grp"] for j in jobs if j["tag"].get("dupw")}):
        if wh.get(g, 0) < 40:
            v.spec_drift(f"Mon_C06 collected only {wh.get(g, 0)} share histories for group {g} (the wire-history rule needs 40)")
    ab = abit_check(v, tier, wd, rng)
    v.coverage = {
        "evaluations": len(jobs) + ab["abit_runs"], "distinct_nontrivial": res["counters"] + res["keys"] + ab["abit_calls_checked"],
        "rule": "each evaluation = one real honest mpc() run with fixed inputs; Mon_C06 derives, from the transcript only, "
                "input XOR own-mask-share per input wire of the observed party and accumulates balance counters per "
                "(group, wire, input value); distinct = balance counters + distinct global keys seen + aBit test calls judged "
                "by Mon_ABit (no XOR of the public coefficient vectors may avoid every discarded position while touching a "
                "returned one)",
        "samples": [{"job": jobs[0]["id"], "inputs": jobs[0]["inputs"], "tag": jobs[0]["tag"]},
                    {"job": jobs[-1]["id"], "tag": jobs[-1]["tag"]}],
        "runs_per_input_value": N, "wire_share_histories": wh, "balance_counters": res["counters"], "global_keys_compared": res["keys"],
    }
    v.coverage.update(ab)
    v.assumptions = ["first-order balance and freshness only: a subtly biased or correlated generator passes (DESIGN.md 5)"]
    rc = v.finish()
    shutil.rmtree(wd, ignore_errors=True)
    return rc


ASHARE_DEV = {"aShare check bit": "flipbit", "aShare MAC in the decommitment": "badmac",
              "aShare commitment to the MAC vector": "otherdm"}


def ashare_model(v, tier, wd, jobs, out):
    """Symbolic model of the aShare consistency round (AShare.tla, values as GF(2) vectors over atoms, Gf2.tla): for
    every choice of bits and every deviation of the corrupted party, KeySecrecy (an honest global key is not in the span
    of the corrupted party's view), CheatDetected and HonestRunOk hold for the repaired protocol; the unrepaired protocol
    (FIXED = FALSE, negative control) must violate KeySecrecy. The model's prediction (a victim returns Err) is compared
    with the outcomes of the replays on the real code."""
    states = 0
    cfgs = [(2, 0), (2, 1), (3, 0), (3, 2)] + ([] if tier == "quick" else [(3, 1), (4, 0), (4, 3), (5, 2)])
    def mc(n, c, fixed):
        cp = f"{wd}/ashare-{n}-{c}-{fixed}.cfg"
        with open(cp, "w") as f:
            f.write(f"SPECIFICATION Spec\nCONSTANTS\n N = {n}\n C = {c}\n FIXED = {'TRUE' if fixed else 'FALSE'}\n"
                    "INVARIANT HonestRunOk\nINVARIANT KeySecrecy\nINVARIANT CheatDetected\nCHECK_DEADLOCK FALSE\n")
        return vlib.run_tlc("AShare", cp, wd, workers=4, timeout=1800)
    for (n, c) in cfgs:
        r = mc(n, c, True)
        if not r["ok"]:
            raise vlib.ToolError(f"AShare (N={n}, C={c}) reports an error:\n" + vlib.strip_tlc(r["out"])[-1500:])
        states += r["distinct"]
    neg = 0
    for (n, c) in ((2, 1), (3, 0)):
        r = mc(n, c, False)
        neg += 1
        if r["ok"] or "KeySecrecy is violated" not in r["out"]:
            raise vlib.ToolError("negative control failed: AShare without the claim verification does not violate KeySecrecy")
    compared = mismatched = 0
    res = {}
    cur = None
    for r in vlib.read_ndjson(out):
        if r["ev"] == "cfg":
            cur = r["run"]
            res[cur] = {}
        elif r["ev"] == "res":
            res[cur][r["p"]] = r
    for j in jobs:
        t = j["tag"]
        if t.get("what") not in ASHARE_DEV or j["id"] not in res:
            continue
        outs = {p: res[j["id"]][p]["kind"] for p in t["judge"] if p in res[j["id"]]}
        compared += 1
        # a bad MAC goes to one addressee (at least that one returns Err); a flipped bit / other vector reaches everybody
        bad = (not any(k == "err" for k in outs.values())) if ASHARE_DEV[t["what"]] == "badmac" else \
            any(k != "err" for k in outs.values())
        if bad:
            mismatched += 1
            if mismatched <= 3:
                v.spec_drift(f"AShare predicts Err at every party that receives '{t['what']}', run {j['id']} returned {outs}")
    return {"states": states, "configs": [f"N={n},C={c}" for (n, c) in cfgs], "negative_controls_failed_as_required": neg,
            "replayed_outcomes_compared_with_model": compared, "mismatches": f"{mismatched} mismatches"}


def check_C07(tier, replay):
    v = Verdict("C07", tier, "exploration")
    wd = vlib.workdir("C07")
    q = tier == "quick"
    rng = random.Random(f"c07-{v.seed}")
    from . import adv
    jobs = []
    if replay:
        with open(replay) as f:
            jobs = [json.load(f)["replay"]["job"]]
    else:
        # honest runs: circuits with NOT gates (labels offset by the key), every role, n = 2..4
        for n in (2, 3) if q else (2, 3, 4):
            for ci, c in enumerate(ej.fixed_small(n) + [ej.gen_circuit(rng, n, gates=6)]):
                for pe in range(n):
                    jobs.append(ej.job(f"honest.n{n}.c{ci}.pe{pe}", c, ej.rand_inputs(rng, c), pe, list(range(n)), cap=1,
                                       pol=ej.policy(rng, n), events=False, probes=True, fields=True,
                                       tag={"judge": list(range(n)), "triples": (n == 2 and ci == 0 and not q), "c": -1}))
        # a circuit that loads one input bit of a party into two registers (two Input instructions naming the same bit, a
        # second declared bit stays unused): every Input instruction is a wire of its own, with its own label
        I = ej.inst
        for n in (2, 3):
            insts = [I("I", 0, 0, 0), I("I", 1, 0, 1), I("I", 1, 0, 2)] + ([I("I", 2, 0, 3)] if n == 3 else [])
            k = len(insts)
            insts += [I("A", 1, 0, k), I("A", 2, 0, k + 1), I("X", k, k + 1, k + 2)]
            dup = {"input_regs": [1, 2] + ([1] if n == 3 else []), "insts": insts, "max_reg": k + 3, "output_regs": [k + 2, k], "and_ops": 2}
            for r in range(6 if q else 16):
                jobs.append(ej.job(f"dupinput.n{n}.{r}", dup, ej.rand_inputs(rng, dup), r % n, list(range(n)), cap=1,
                                   pol=ej.policy(rng, n), events=False, probes=True, fields=True,
                                   tag={"judge": list(range(n)), "triples": False, "c": -1}))
        # under attack: every preprocessing / online deviation of Adversary.tla; the honest parties' keys are judged
        for (name, circ, n, pe, po, c) in adv.configs("C07", tier, rng):
            for fam in ("pre", "online"):
                scs = adv.scenarios(wd, f"{name}.{fam}", circ, n, pe, po, c, fam)
                scs.sort(key=lambda s: json.dumps(s, sort_keys=True))
                if q and len(scs) > 10:
                    # always keep the deviations that an honest party may not notice (claims it cannot check
                    # directly); sample the rest
                    keep = [x for x in scs if x["what"] in ("aShare check bit", "aShare MAC in the decommitment",
                                                           "aShare commitment to the MAC vector", "LaAND e bit", "HaAND bits",
                                                           "masked value for a non-input register")
                            and x["devs"][0].get("k") == 0]
                    # ... and the two-position alterations of values that are opened offset by the key when the claim is
                    # wrong (an aggregated check lets them cancel: the run goes on with the offset values on the wire)
                    seen2 = set()
                    for x in scs:
                        if x["what"] in ("two LaAND e bits", "two aShare check bits") and x["what"] not in seen2:
                            seen2.add(x["what"])
                            keep.append(x)
                    rest = [x for x in scs if x not in keep]
                    scs = keep + rng.sample(rest, min(10, len(rest)))
                for i, sc in enumerate(scs):
                    devs, taps = adv.to_devs(sc)
                    jobs.append(ej.job(f"{name}.{fam}.{i}", circ, ej.rand_inputs(rng, circ), pe, po, cap=1, pol=ej.policy(rng, n),
                                       events=False, devs=devs, taps=taps, probes=True, fields=True,
                                       tag={"judge": [p for p in range(n) if p != c], "triples": False, "c": c, "what": sc["what"]}))
    out = vlib.run_pt("engine", jobs, wd, name="c07", timeout=7200)
    res = vlib.tlc_trace_chunked("Mon_C07", vlib.MON_CFG, out, wd, depth_first=False, timeout=3600)
    jb = {j["id"]: j for j in jobs}
    sym = ashare_model(v, tier, wd, jobs, out) if not replay else {}
    pm = adv.pre_model(v, tier, wd, "C07", jobs, out)[0] if not replay else {}
    for x in res.get("viol", []):
        j = jb[x["run"]]
        v.violation(f"C07: {x['what']} [{j['tag'].get('what', 'honest run')}]", {"kind": "engine-job", "job": j, "party": x["p"]},
                    f"run {x['run']}: party {x['p']}: {x['what']}")
    v.coverage = {
        "evaluations": len(jobs), "distinct_nontrivial": len({(len(j["circuit"]["input_regs"]), j["p_eval"], j["tag"].get("what", "honest"),
                                                              j["tag"]["c"]) for j in jobs}),
        "rule": "each evaluation = one real run (honest, or with one deviation of Adversary.tla that the run may survive); Mon_C07 "
                "checks that no honest party's probed global key equals a decoded 128-bit field of the transcript or the XOR of "
                "two of them (three for a small honest configuration in the thorough tier), nor occurs in the raw bytes",
        "samples": [{"job": jobs[0]["id"], "tag": jobs[0]["tag"]}, {"job": jobs[-1]["id"], "tag": jobs[-1]["tag"]}],
        "transcripts_scanned": res["checked"], "fields_scanned": res["fields"],
        "symbolic_ashare_model": sym,
    }
    v.coverage.update(pm)
    v.assumptions = ["opaque byte strings (OT matrix, base-OT points, row ciphertexts) are scanned only as raw bytes for the key itself",
                     "three-element XOR sets only in the thorough tier on one small configuration"]
    rc = v.finish()
    shutil.rmtree(wd, ignore_errors=True)
    return rc


REGISTRY.update({"C06": check_C06, "C07": check_C07})

#!/usr/bin/env python3
"""Single source of truth for MANIFEST.json. Run after changing CHECKS / NA."""
import json
import subprocess

IDS = [json.loads(l)["id"] for l in open("/verif/properties.jsonl")]

CHECKS = {
    "C01": dict(
        category="model_checking", design_ref="DESIGN.md 4 C01",
        text="Real mpc() runs for n=2..5, every evaluator, output sets, tmp_dir mixes, corner circuits and AND counts "
             "0..2001 around the 1000-gate batch boundary; every party's result is compared by TLC (Mon_C01) with "
             "ClearEval computed in TLA+, and every recorded operation trace must be a behaviour of the Skeleton/Sched "
             "specification (Trace_Engine). The scaled specification (multi-batch at 2 ANDs) is explored exhaustively by "
             "MC_Sched. Honest correctness over all circuits cannot be proved by enumeration; this is bounded model "
             "checking of the communication skeleton plus monitored real executions.",
        note="Trusted: TLC, the TLA+ ClearEval oracle, the harness executor/network (reliable FIFO). The symbolic "
             "garbling algebra (Wrk17Online) is a separate model; the real arithmetic is exercised only by the runs.",
        technique="TLA+ spec (Skeleton/Sched) model-checked by TLC + trace validation of real runs + TLC result monitor",
    ),
    "C05": dict(
        category="model_checking", design_ref="DESIGN.md 4 C05",
        text="OutputPrivacy is an invariant of MC_Sched checked over all interleavings for every (evaluator, output set) of "
             "a 3-party configuration; every message of every recorded honest run (n=2..5) is checked by the monitor "
             "Mon_C05 (no message to a party after its input processing unless it is output opening for an output party; "
             "Some-positions of opening messages within the output registers; empty result for non-output parties).",
        note="Phase labels given to Channel identify opening material; decoded Some-positions come from the harness decoder.",
        technique="TLC invariant on the TLA+ skeleton + TLC trace monitor over real wire traces",
    ),
    "C09": dict(
        category="model_checking", design_ref="DESIGN.md 4 C09",
        text="Program(cfg,p) in Skeleton.tla takes public parameters only; Trace_Engine must accept every real run with "
             "byte-exact lengths without being given the inputs; Mon_C09 additionally requires, independent of the size "
             "formulas, identical per-ordered-pair (phase,length) sequences across runs of one public configuration that "
             "differ in inputs, coins, tmp_dir, capacity and schedule.",
        note="Randomness of the engine is not controlled (thread RNG); different coins arise from repeated runs.",
        technique="TLA+ trace validation (Trace_Engine) + TLC cross-run monitor (Mon_C09)",
    ),
    "C12": dict(
        category="model_checking", design_ref="DESIGN.md 4 C12",
        text="MC_Sched explores every interleaving of the parties' programs over FIFO channels of capacity 1, 2 and "
             "unbounded (n=2 all, n=3 capacity 1 in quick) for deadlock, FIFO label match, one outstanding operation per "
             "peer/direction and termination under fairness. TLC-generated schedules (real constants) are replayed step by "
             "step on the real engine in a scheduler-controlled executor (zero drift required for the detailed claim); "
             "random and adversarial-order schedulers add further runs; all are judged by Mon_C12 and validated against "
             "Skeleton/Sched.",
        note="The executor grants one channel operation at a time; wake-up order inside a party is the engine's own.",
        technique="TLC exhaustive interleaving exploration + replay of TLC schedules on the real code + trace validation",
    ),
}

SERVER_NOTE = ("Trusted: TLC; the harness driver (in-process PolicyClient, gates). The MPC inside a policy run is the real engine "
               "but is abstract in the spec (start / complete / fail). Queue capacities (10) are not modelled. The HTTP layer is "
               "bound only at the PolicyStateHandle boundary it wraps.")
SERVER_TECH = ("TLA+ spec ServerCore model-checked by TLC (MC_Server) + TLC behaviours replayed gate by gate on the real "
               "PolicyState actors + trace validation (Trace_Server) + TLC property monitor (Mon_Server)")
CHECKS.update({
    "C13": dict(
        category="model_checking", design_ref="DESIGN.md 4 C13",
        text="ServerCore.tla models every actor of state.rs at the grain of the harness gates (command dequeued, RPC delivery, "
             "permit acquisition, spawned constants/MPC task first poll, output notification). TLC explores all arrival orders and "
             "RPC delivery orders for n=2 (every leader, constants none/some/all, destination present/absent) and n=3 "
             "configurations, two computations sharing a semaphore, with safety invariants and the liveness property "
             "<>[]HappyEnd under fairness. TLC behaviours are replayed as scripts on the real actors (real compile, real mpc), "
             "seeded random gate schedules add runs; every log must be a behaviour of ServerCore (all observable fields compared "
             "after every step) and is judged by Mon_Server: schedule Ok, exactly one result equal to the clear-text value, "
             "all stopped, permits back. The interleaving of the MPC-message calls is exercised by slow-link scenarios (the MPC "
             "messages of one directed link are delivered as late as possible), on a small circuit and on a circuit whose garbled "
             "gates travel in the maximal number of chunks (the per-peer queues of the state machine hold exactly that much).",
        note=SERVER_NOTE, technique=SERVER_TECH),
    "C14": dict(
        category="model_checking", design_ref="DESIGN.md 4 C14",
        text="Stray commands (duplicate schedule, run/consts before validation, validate in a wrong state, MPC message with an "
             "out-of-range sender or before scheduling) are an action of ServerCore enabled at every point; TLC checks NoPanic, "
             "StraysRejected and that the run still ends like a fault-free run. On the real code each stray kind is injected after "
             "every k-th step of a base run on every actor (sampled in quick), plus TLC behaviours and random runs; Mon_Server "
             "requires an error answer, no panicked actor task and the undisturbed outcome. A run request reaching the leader inside "
             "its schedule step (RunEarly) is valid by the time it is handled: it may be accepted, the outcome must not change.",
        note=SERVER_NOTE, technique=SERVER_TECH),
    "C15": dict(
        category="model_checking", design_ref="DESIGN.md 4 C15",
        text="cancel() is an API action enabled at every point; tokio Notify semantics (stored permit, registered waiter, select) "
             "are modelled explicitly. TLC checks: after cancel Ok the actor is stopped, exactly one notification for a party that "
             "knew its destination, nothing afterwards, permit returned; cancel always returns (liveness). On the real code cancel "
             "is injected after every k-th step of a base run on every actor (current-thread runtime, and a sample on the "
             "multi-thread runtime), plus TLC behaviours with a cancel budget.",
        note=SERVER_NOTE, technique=SERVER_TECH),
    "C16": dict(
        category="model_checking", design_ref="DESIGN.md 4 C16",
        text="Program-hash mismatch at a follower (n=2,3), leader mismatch at a follower (n=3), ill-typed program at follower or "
             "leader: TLC explores all interleavings (both arrival orders of validate vs schedule) with invariants: no MPC "
             "message, no Ok result, schedule of the offending follower and of the leader end with an error. The same scenarios "
             "run on the real actors (TLC behaviours + random schedules) and are judged by Mon_Server (MPC messages are counted "
             "at the in-process client). Program mismatches: different tokens, and the same characters with one line break moved "
             "(a line comment swallowing the rest of the expression: a different program). Every (leader, offending follower) pair "
             "for n=3 runs with a constant-free program (a matching follower told to run would start the MPC at once).",
        note=SERVER_NOTE, technique=SERVER_TECH),
    "C17": dict(
        category="model_checking", design_ref="DESIGN.md 4 C17",
        text="Several computations per party share one semaphore in ServerCore; one RPC failure can be injected into any single "
             "validate/run/consts call, cancels are mixed in. TLC checks exact permit accounting, the concurrency bound, that all "
             "permits are back once all policies have ended, and that a failed call ends the policy at the caller (with an error "
             "notification). Real runs with injected failures (1..8 computations, concurrency 1..3, mixed leaders; the specification "
             "is explored by simulation for batches of 4 and more) are validated "
             "against the spec and judged by Mon_Server using Semaphore::available_permits after every step. A policy whose MPC task "
             "has delivered its result or an MPC error has ended: once nothing can move it must have stopped with the permit back "
             "(C17TaskEndEnds). One scenario mixes cancel, RPC failure and a stray command and is checked against every server "
             "invariant.",
        note=SERVER_NOTE, technique=SERVER_TECH),
})

CHECKS.update({
    "C18": dict(
        category="fault_enumeration", design_ref="DESIGN.md 4 C18",
        text="MpcArgs.tla is the decision table of validate(): argument classes (own index, evaluator index, output set incl. "
             "empty / out of range / repeated / unsorted, input length -1/+1/0, circuit: library-invalid classes and "
             "inconsistent counters / misplaced, surplus or repeated Input instructions / Input fields at the boundary and far out of "
             "range) x n in {2,3} x party x "
             "role. TLC checks that the tree's table implies what C18 demands and exports every row; each row is one real "
             "mpc() run; Mon_C18 requires Err with zero channel operations for invalid rows, reject-or-set semantics for "
             "repeated indices, correct results for valid rows, and no panic / no hang for every row.",
        note="Argument classes represent their members; a class-internal special value would be missed. The circuit classes "
             "are built by a fixed mutation of one base circuit.",
        technique="TLA+ decision-table spec enumerated by TLC, one replay per row on the real mpc(), TLC monitor"),
    "C19": dict(
        category="model_checking", design_ref="DESIGN.md 4 C19",
        text="FileBuf.tla models both variants of FileOrMemBuf (file: BufWriter, shared OS offset with read-ahead, rewind on "
             "iter/chunks, seek-to-end on drop; memory: re-chunking by parameter). TLC checks for ALL operation sequences up to "
             "the bound (8 quick / 9-10 thorough) that both variants return the same items and, when all appends but the last "
             "have the chunk size, the same boundaries, and that every flush happens at the end of the file; a negative control "
             "(no seek on drop) must violate them. All behaviours up to a smaller bound, thousands of simulated 12-operation "
             "behaviours and large-size scripts crossing the 8 KiB buffers are replayed on the real FileOrMemBuf<u64> in both "
             "variants and judged by Mon_C19 (incl. directory listing); engine runs under every tmp_dir assignment are judged "
             "by Mon_C01/Mon_C09.",
        note="Element type u64 only; the OS offset is modelled at chunk granularity.",
        technique="TLA+ spec model-checked by TLC + replay of TLC behaviours on the real buffer + TLC monitor"),
})

ADV_NOTE = ("One corrupted party, which runs the honest code and deviates in the messages it sends (and in tapped internal bits). "
            "The deviation space is the one enumerated by Adversary.tla: fixed representatives per malformation class, sampled "
            "indices inside long vectors. Cryptographic assumptions (hash, AEAD, OT) are not checked.")
ADV_TECH = ("TLA+ spec (Skeleton + Adversary) enumerated by TLC into deviation scenarios, each replayed on the real mpc() under the "
            "deterministic executor through an adversarial channel; TLC property monitor Mon_Adv")
CHECKS.update({
    "C02": dict(
        category="fault_enumeration", design_ref="DESIGN.md 4 C02",
        text="Every scenario of all three families of Adversary.tla (malformed messages, tampered online fields, tampered "
             "preprocessing values; corrupted garbler and corrupted evaluator; n=2 and n=3) is replayed on the real code; Mon_Adv "
             "computes with ClearEval the set of values explainable by SOME input of the corrupted party and requires every honest "
             "Ok output to lie in it, with one common explanation for all honest output parties; honest non-output parties return "
             "no bits. Scenarios that omit or forge optional values are repeated, as they only show when a hidden bit is 1. For the "
             "online phase the invariant Integrity of the symbolic model Wrk17Online is checked exhaustively by TLC (MC_Online).",
        note=ADV_NOTE, technique=ADV_TECH),
    "C03": dict(
        category="model_checking", design_ref="DESIGN.md 4 C03, 10.5",
        text="Wrk17Online.tla models the online phase (input processing, garbling with the four authenticated rows, evaluation "
             "with label recombination, output opening) over an ideal preprocessing with the 128-bit algebra kept symbolic "
             "(values = sets of atoms, XOR = symmetric difference); MC_Online checks for small configurations (n=2 and 3, corrupted "
             "garbler / evaluator, all inputs, all share bits consistent with the AND functionality, every single-field deviation) "
             "HonestCorrect, TamperAborts (the victim returns the error the code names for the consuming check), LabelTamper and "
             "Integrity; four negative controls (a check left out) must fail. Adversary.tla derives from the circuit every authenticated field of the online phase: mask-share bit and MAC per "
             "input register and recipient, per output register and output party; every input label; row ciphertext bits of every "
             "AND gate (all four rows); the share a garbler encrypts into a row (tap); the evaluator's revealed value and label per "
             "output register and recipient; equivocated masked inputs (n=3). One replay per field; Mon_Adv requires the consuming "
             "honest party to return Err (a panic or Ok is a violation); the error class of every replay is compared with the "
             "model's table (mismatch = drift).",
        note=ADV_NOTE + " The symbolic model treats hashes/AEAD/MACs as ideal and covers the online phase only.",
        technique="TLA+ symbolic protocol model (Wrk17Online) model-checked by TLC + " + ADV_TECH),
    "C04": dict(
        category="fault_enumeration", design_ref="DESIGN.md 4 C04",
        text="(a) Adversary.tla lists the values checked by each preprocessing verification step (coin-toss commitment/opening, "
             "aBit test bit and MAC, aShare commitments / decommitment bit and MAC / opened key sum, HaAND bits, LaAND e bit, "
             "commitment and check value, d-value bit and MAC, Beaver d/e and MACs, KOS check values, OT corrections, OT matrix, "
             "base-OT points and ciphertexts, broadcast equivocation) at first/middle/last index, to one recipient, to all "
             "consistently, once or persistently; Mon_Adv requires Err at every honest recipient. (b) commit-before-reveal is an "
             "invariant of MC_Sched over all interleavings and is monitored (Mon_C04b) on the operation traces of real runs under "
             "adversarial schedulers. (c) challenge-after-data is examined by Mon_C04c on probe values against a predictor fed "
             "with the coin-toss openings seen on the wire, and as a message order by Mon_C04b (the seed of the KOS check "
             "coefficients is sent only after the matrix it tests was received from that peer). Two exhaustive models back (a): Wrk17Pre.tla (leaky AND, bucket "
             "combination, Beaver as GF(2) algebra over all share bits: CheatDetected, PassImpliesCorrect, KeySecrecy, negative "
             "controls) and Broadcast.tla (echo broadcast over FIFO channels, all interleavings, liveness); the error each model "
             "predicts for a deviation is compared with what the replay of that deviation returned on the real code.",
        note=ADV_NOTE, technique=ADV_TECH + "; TLC invariant NoEarlyReveal + trace monitors Mon_C04b / Mon_C04c"),
    "C08": dict(
        category="fault_enumeration", design_ref="DESIGN.md 4 C08",
        text="For every message the corrupted party sends (position in the skeleton of Skeleton.tla) and every malformation "
             "class -- empty, truncated at 1 / half / last byte, bit flips in the length prefix / payload / last byte, appended "
             "bytes, random bytes of the same and of a short length, outer vector shortened / lengthened / emptied, inner vectors "
             "shortened / lengthened / emptied, out-of-range booleans, optional fields dropped / added -- and for the sender "
             "vanishing instead of sending it, the real code runs under an executor with exact hang detection, catch_unwind and a "
             "counting allocator; Mon_Adv rejects panic, hang and allocation out of proportion to the bytes received.",
        note=ADV_NOTE + " Allocation is observed per run (all parties of the run share a thread), not modelled.",
        technique=ADV_TECH),
})

CHECKS.update({
    "C10": dict(
        category="model_checking", design_ref="DESIGN.md 4 C10",
        text="The relations ShareRel, TripleRel and SameCoins are TLA+ operators (Mon_C10 / Limbs); the real distributed "
             "preprocessing (coin tossing, aShare incl. its sacrifice check, LaAND, bucketing, Beaver) and the real trusted dealer "
             "are run through verification wrappers for n=2..5 and batch lengths around every boundary (1, 2, 7..9, 127..129, "
             "999..1001, 3099/3100 thorough, bucket sizes 5 and 4), each party's shares, keys, MACs and global key are exported as "
             "16-bit limbs and TLC evaluates the relations for every ordered pair and every (sampled for long batches) index. "
             "Wrk17Pre.tla re-derives the leaky-AND / bucket / Beaver algebra symbolically and TLC checks HonestCorrect and "
             "PassImpliesCorrect over all share bits (n = 2, 3).",
        note="Values exported by the wrappers are those handed to the online phase. Bucket size 3 (>= 280000 triples per batch) "
             "is out of reach. The relation part evaluates recorded outputs; the state space explored is that of Wrk17Pre.",
        technique="TLA+ relation operators evaluated by TLC on outputs recorded from the real preprocessing (trace checking)"),
    "C11": dict(
        category="model_checking", design_ref="DESIGN.md 4 C11",
        text="Real KOS/ALSZ/Chou-Orlandi sessions for every length 1..40, 8k+-1, 128k+-1, 1023..1025, 4095, 4096 (thorough: every "
             "length 1..4096) with all-0, all-1 and random choice vectors, random correlations (plus all-zero, one block repeated, "
             "zero / all-ones / one-bit entries mixed in), single sessions and "
             "sender-then-receiver / receiver-then-sender pairs on one 1-slot channel sharing one random stream, under the "
             "deterministic executor; TLC (Mon_C11) checks recv[i] = send[i] XOR c[i]*d[i] at every index, result lengths, equal "
             "stream positions afterwards, and the size of every message against the session part of Skeleton.tla.",
        note="The ideal-functionality relation is checked on recorded outputs; KOS soundness is assumed.",
        technique="TLA+ relation + session skeleton evaluated by TLC on recorded real sessions (trace checking)"),
    "C20": dict(
        category="exploration", design_ref="DESIGN.md 4 C20, 5",
        text="Prims.tla defines transpose (Out[j][i] = In[i][j], LSB first), the carry-less product over GF(2)[x] with (low, high) "
             "split, CR(x) = pi(x) XOR x, TCCR(t,x) = pi(pi(x) XOR t) XOR pi(x) and the counter-mode keystream, with AES as an "
             "uninterpreted permutation given by table. Both code paths (dispatching / portable-scalar) are recorded for 128 x c "
             "matrices (c = 16..4096), random shapes and unaligned buffers, basis pairs x^i * x^j, sparse / dense / all-ones / "
             "random operands, random blocks and tweaks (incl. zero tweak), generator requests of lengths 0..1100; TLC evaluates "
             "the definitions on every record. Weakest fit of the technique: no state space, TLA+ serves as executable "
             "definition only.",
        note="AES-128 (the aes crate) is trusted. Large matrices: border rows/columns, a seeded sample and population counts.",
        technique="TLA+ definitional operators evaluated by TLC on recorded I/O of both implementations"),
})

CHECKS.update({
    "C06": dict(
        category="exploration", design_ref="DESIGN.md 4 C06, 5",
        text="A history of honest runs with fixed inputs (200 per input assignment in quick, 1000 thorough; n=2..4, observed party "
             "as garbler and as evaluator) is judged by Mon_C06 from the transcript alone: for every input wire of the observed party "
             "the broadcast masked bit XOR the mask shares the others sent it (= input XOR own share) must be balanced for input 0 "
             "and input 1 alike (5 sigma), no two (party, run) may share a global key (probe) and no two canary runs the same "
             "own-mask vector, the own shares of two input wires of one party must be independent (their XOR balanced); 128 random "
             "canary input bits must not appear as the broadcast vector, its complement or a bit/byte "
             "pattern in the party's traffic. Clause 'a share that it never discloses': ABit.tla models the aBit consistency test as "
             "linear algebra over GF(2) (DisclosureIsExact, MaskedIfFullRank, LeakBound, soundness of the test) and Mon_ABit judges "
             "every fabitn call of real honest runs: no XOR of the public coefficient vectors may avoid every discarded position "
             "while touching a returned one (Gaussian elimination in TLA+; a found combination is confirmed on the broadcast bits "
             "and the probed own bits). A recorded call of the pinned tree is replayed as negative control.",
        note="Possibilistic/first-order only: the monitor cannot decide uniformity; a subtly biased or correlated generator passes. "
             "The global key, the test coefficients and the own aBit bits are read through probe hooks.",
        technique="TLC trace monitor over a multi-run history of real executions (statistical counters evaluated in TLA+)"),
    "C07": dict(
        category="exploration", design_ref="DESIGN.md 4 C07, 5",
        text="For honest runs (n=2..4, every evaluator, circuits with NOT gates) and for runs with one deviation of Adversary.tla "
             "that the run may survive (all deviations an honest party cannot check directly, a sample of the others) the harness "
             "decodes every 128-bit field of the whole transcript (incl. the MACs inside the aShare decommitments); Mon_C07 checks "
             "for every honest party still in the run that its probed global key is no field, no XOR of two fields (three fields: "
             "thorough, one small configuration) and occurs at no byte offset of any message in either byte order.",
        note="Opaque byte strings (OT matrix, base-OT points, row ciphertexts) are scanned only as raw bytes for the key itself. A "
             "party that aborted on a protocol check is not judged (its key dies with the run). The symbolic secrecy model of "
             "DESIGN 2.1 exists for the aShare round (AShare.tla) and the AND-triple preprocessing (Wrk17Pre.tla): KeySecrecy is "
             "model-checked there and bound to the replays; the rest is a transcript scan.",
        technique="TLC trace monitor (XOR-closure scan of the decoded transcript against probed keys) over real honest and adversarial runs"),
})

NA = {}


def main():
    checks = []
    for pid in IDS:
        if pid not in CHECKS:
            continue
        c = CHECKS[pid]
        checks.append({
            "property_id": pid,
            "quick_cmd": f"bin/check {pid} --tier quick",
            "thorough_cmd": f"bin/check {pid} --tier thorough",
            "evidence_file": f"/verif/evidence/{pid}.json",
            "replay_cmd_template": f"bin/check {pid} --replay {{path}}",
            "engine": "tlc+harness",
            "level_claimed": {"category": c["category"], "text": c["text"], "design_ref": c["design_ref"]},
            "level_note": c["note"],
            "technique": c["technique"],
        })
    na = [{"property_id": p, "reason": NA.get(p, "check under construction in this round (see DESIGN.md); not yet claimed")}
          for p in IDS if p not in CHECKS]
    try:
        commits = subprocess.run(["git", "-C", "/repo", "log", "--format=%H %s", "--grep", "^verif-hook"],
                                 stdout=subprocess.PIPE, text=True).stdout.strip().splitlines()
    except Exception:
        commits = []
    m = {
        "version": 1,
        "setup_cmd": "cd /verif && bin/setup",
        "hooks": {
            "guard": "--cfg polytune_verif",
            "enable": "harness/.cargo/config.toml passes rustflags --cfg polytune_verif to the harness build, whose path "
                      "dependencies compile /repo's working tree",
            "baseline_off_cmd": "cd /repo && (cargo nextest run --workspace --no-fail-fast --test-threads 8 --offline || "
                                "cargo test --workspace --no-fail-fast --offline)",
            "source_commits": [c.split()[0] for c in commits],
            "add_only": True,
        },
        "engines": [
            {"name": "tlc+harness", "path": "/verif/bin/check",
             "serves_properties": [c["property_id"] for c in checks],
             "kind_free_text": "TLA+ specifications in /verif/spec checked by TLC (exhaustive, simulation, trace validation, "
                               "property monitors); Rust harness in /verif/harness drives and records the real code"},
        ],
        "checks": checks,
        "not_applicable": na,
        "notes": "Model-based verification with explicit TLA+ specifications; see DESIGN.md. Exit 2 = tool error.",
    }
    json.dump(m, open("/verif/MANIFEST.json", "w"), indent=1)
    print(f"{len(checks)} checks, {len(na)} not_applicable")


if __name__ == "__main__":
    main()

SPECIFICATION Spec
INVARIANT HonestCorrect
INVARIANT TamperAborts
INVARIANT LabelTamper
INVARIANT Integrity
CHECK_DEADLOCK FALSE

------------------------------ MODULE MC_Server ------------------------------
(***************************************************************************)
(* Model-checking instance of ServerCore: the scenario (parties, policies, *)
(* concurrency, fault budget, which repairs are in the tree) is read from  *)
(* the JSON file named by the environment variable CFG.  `hist` records    *)
(* the gate releases / API calls taken so that behaviours can be exported  *)
(* as scripts for the replay driver (excluded from the VIEW).              *)
(***************************************************************************)
EXTENDS ServerCore, Json, IOUtils

CFG == JsonDeserialize(IOEnv.CFG)
MCN == CFG.n
MCNC == Len(CFG.pol)
MCConc == CFG.conc
MCPol == CFG.pol
MCFaults == CFG.faults
MCFIX == CFG.fix

VARIABLE hist
mcvars == << vars, hist >>
mcview == vars

Step(rec) == hist' = IF CFG.record THEN Append(hist, rec) ELSE hist

MCInit == Init /\ hist = << >>

\* stray MPC messages pass the driver's command gate without being parked
MsgCmd(a) == CmdGate(a) /\ Head(cmdq[a]).t \in {"MsgBad", "MsgEarly", "MsgSelf"}
MCAuto == \E a \in A : MsgCmd(a) /\ DoCmd(a) /\ UNCHANGED hist

MCGate ==
  \/ \E a \in A : ~MsgCmd(a) /\ DoCmd(a) /\ Step([g |-> "cmd", c |-> a[1], p |-> a[2], name |-> Head(cmdq[a]).t])
  \/ \E a \in A : DoAcquire(a) /\ Step([g |-> "acq", c |-> a[1], p |-> a[2]])
  \/ \E a \in A : DoCtask(a) /\ Step([g |-> "ctask", c |-> a[1], p |-> a[2]])
  \/ \E a \in A : DoMtask(a) /\ Step([g |-> "mtask", c |-> a[1], p |-> a[2]])
  \/ \E a \in A : DoOut(a) /\ Step([g |-> "out", c |-> a[1], p |-> a[2], val |-> Head(outq[a]).val])
  \/ \E r \in rpc : DeliverRpc(r) /\ Step([g |-> "rpc", k |-> r.k, c |-> r.c, p |-> r.from, to |-> r.to, mode |-> "deliver"])
  \/ \E r \in rpc : FailRpc(r) /\ Step([g |-> "rpc", k |-> r.k, c |-> r.c, p |-> r.from, to |-> r.to, mode |-> "fail"])

MCApi ==
  \/ \E a \in A : CallSchedule(a) /\ Step([g |-> "api", what |-> "schedule", c |-> a[1], p |-> a[2]])
  \/ \E a \in A : CallCancel(a) /\ Step([g |-> "api", what |-> "cancel", c |-> a[1], p |-> a[2]])
  \/ \E a \in A : \E t \in StrayKinds : Inject(a, t) /\ Step([g |-> "api", what |-> t, c |-> a[1], p |-> a[2]])

\* internal steps have priority in the exported behaviours (the replay driver
\* lets the real system settle after every release), but not in the
\* exhaustive exploration, where they interleave freely
MCInternal == Internal /\ UNCHANGED hist
MCNext == MCInternal \/ MCAuto \/ MCGate \/ MCApi
MCSpec == MCInit /\ [][MCNext]_mcvars
MCFair == MCSpec /\ WF_mcvars(MCInternal \/ MCAuto \/ MCGate) /\ \A a \in A : WF_mcvars(CallSchedule(a) /\ Step([g |-> "api"]))

SettledNext == IF (ENABLED Internal) \/ (\E a \in A : MsgCmd(a)) THEN (MCInternal \/ MCAuto) ELSE (MCGate \/ MCApi)
SimSpec == MCInit /\ [][SettledNext]_mcvars

Summary == [sched |-> [a \in A |-> sched[a]], cancl |-> [a \in A |-> cancl[a]], outs |-> [a \in A |-> outs[a]],
            kind |-> [a \in A |-> kind[a]], sem |-> sem]
\* one line per finished behaviour
Export == Quiescent => PrintT("REPLAY " \o ToJson([steps |-> hist, final |-> [a \in A |-> [c |-> a[1], p |-> a[2],
              sched |-> sched[a], cancl |-> cancl[a], outs |-> outs[a], kind |-> kind[a]]], sem |-> sem]))
=============================================================================

-------------------------------- MODULE Limbs --------------------------------
(* 128-bit values as eight 16-bit limbs (least significant first); TLC      *)
(* integers are 32 bit.                                                      *)
EXTENDS Naturals, Sequences, Bitwise
Zero128 == [i \in 1..8 |-> 0]
\* (the ^^ of the Bitwise module is a slow recursive definition: 16-bit XOR by nibble table)
Nib == [a \in 0..15 |-> [b \in 0..15 |-> a ^^ b]]
Xor16(a, b) == Nib[a % 16][b % 16] + 16 * Nib[(a \div 16) % 16][(b \div 16) % 16]
               + 256 * Nib[(a \div 256) % 16][(b \div 256) % 16] + 4096 * Nib[a \div 4096][b \div 4096]
XorL(a, b) == [i \in 1..8 |-> Xor16(a[i], b[i])]
AndBit(b, a) == IF b THEN a ELSE Zero128
Pow2(k) == LET RECURSIVE P(_) P(x) == IF x = 0 THEN 1 ELSE 2 * P(x - 1) IN P(k)
BitOf(a, k) == (a[(k \div 16) + 1] \div Pow2(k % 16)) % 2
=============================================================================

SPECIFICATION Spec
CONSTANT FIXV <- MCFIXV
INVARIANT RejectedUpFront
INVARIANT DuplicatesHandled
INVARIANT Export
CHECK_DEADLOCK FALSE

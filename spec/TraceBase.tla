------------------------------ MODULE TraceBase ------------------------------
(* Recorded events of the real implementation: one JSON object per line.   *)
EXTENDS Json, IOUtils, TLC, Sequences, Naturals
Rec == ndJsonDeserialize(IOEnv.TRACE)
NRec == Len(Rec)
Has(r, f) == f \in DOMAIN r
=============================================================================

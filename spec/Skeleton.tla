------------------------------ MODULE Skeleton ------------------------------
(***************************************************************************)
(* Program(cfg, i): the communication program of party i of polytune::mpc  *)
(* as a function of PUBLIC parameters only                                  *)
(*   cfg = [n, pe (evaluator), po (sequence of output parties), circ].     *)
(* A program is a sequence of join groups; a group is a sequence of chains  *)
(* (the branches of a try_join / try_join_all); a chain is a sequence of   *)
(* channel operations [d |-> "S"|"R", q |-> peer, ph |-> phase, len].      *)
(* Byte lengths follow bincode's legacy (fixed width) encoding.            *)
(* The constants are the engine's (RHO = SSP = 40, BFLOOR = 1000, bucket   *)
(* sizes 5/4/3) in trace validation and are scaled down for model checking. *)
(***************************************************************************)
EXTENDS Naturals, Sequences, FiniteSets, Circuit

CONSTANTS RHO,      \* statistical security parameter of aBit / aShare
          SSP,      \* statistical security parameter of KOS
          BFLOOR,   \* minimum batch size (1000 in the code)
          BMAX,     \* bucket size below BT4 triples (5 in the code)
          BT4,      \* from this many triples the bucket size is 4 (3100)
          BT3       \* from this many triples the bucket size is 3 (280000)

Min(a, b) == IF a < b THEN a ELSE b
Max(a, b) == IF a > b THEN a ELSE b
CeilDiv(a, b) == (a + b - 1) \div b
NM8(m) == CeilDiv(m, 8) * 8

BucketSize(l) == IF l >= BT3 THEN 3 ELSE IF l >= BT4 THEN 4 ELSE BMAX

\* Context::random_shares_batch_size / and_share_batch_size
BatchSize(total) == Min(total, Max(CeilDiv(total, 9), BFLOOR))

\* chunk_size_iter
ChunkSizes(total, cs) ==
  IF cs = 0 THEN << >>
  ELSE [k \in 1..(total \div cs) |-> cs] \o (IF total % cs # 0 THEN << total % cs >> ELSE << >>)

Op(d, q, ph, len) == [d |-> d, q |-> q, ph |-> ph, len |-> len]

\* peers of i in increasing order
Peers(n, i) == [k \in 1..(n - 1) |-> IF k - 1 < i THEN k - 1 ELSE k]

\* scatter / unverified_broadcast: all sends and all receives concurrently
ScatterG(n, i, ph, LenTo(_), LenFrom(_)) ==
  [k \in 1..(n - 1) |-> << Op("S", Peers(n, i)[k], ph, LenTo(Peers(n, i)[k])) >>]
  \o [k \in 1..(n - 1) |-> << Op("R", Peers(n, i)[k], ph, LenFrom(Peers(n, i)[k])) >>]

UniG(n, i, ph, len) == ScatterG(n, i, ph, LAMBDA q : len, LAMBDA q : len)

\* broadcast_verification: a scatter of Vec<Option<u128>> of length n with n-2 Some
BcastVer(n, i, ph) ==
  IF n = 2 THEN << >> ELSE << UniG(n, i, "broadcast " \o ph, 8 + 2 + 17 * (n - 2)) >>

Broadcast(n, i, ph, len) == << UniG(n, i, ph, len) >> \o BcastVer(n, i, ph)

-----------------------------------------------------------------------------
\* OT extension sessions (KOS on ALSZ on Chou-Orlandi), m correlated OTs
NCols(m) == NM8(m) + 128 + SSP
AlszLen(m) == 8 + 128 * (8 + NCols(m) \div 8)

KosSenderSess(k, m) ==
  << Op("R", k, "CO_OT_s", 40), Op("S", k, "CO_OT_r", 8 + 128 * 40),
     Op("R", k, "CO_OT_c0c1", 8 + 128 * 32), Op("R", k, "ALSZ_OT_setup", AlszLen(m)),
     \* the seed of the check coefficients, chosen by the sender after it has received the matrix (fix, DESIGN 11)
     Op("S", k, "KOS_OT_seed", 40),
     Op("R", k, "KOS_OT_x_t0_t1", 56), Op("S", k, "KOS_OT_corr", 8 + 16 * m) >>

KosReceiverSess(k, m) ==
  << Op("S", k, "CO_OT_s", 40), Op("R", k, "CO_OT_r", 8 + 128 * 40),
     Op("S", k, "CO_OT_c0c1", 8 + 128 * 32), Op("S", k, "ALSZ_OT_setup", AlszLen(m)),
     Op("R", k, "KOS_OT_seed", 40),
     Op("S", k, "KOS_OT_x_t0_t1", 56), Op("R", k, "KOS_OT_corr", 8 + 16 * m) >>

\* fabitn: per peer, sender session first iff own index is smaller
OtChain(i, k, m) ==
  IF i < k THEN KosSenderSess(k, m) \o KosReceiverSess(k, m)
           ELSE KosReceiverSess(k, m) \o KosSenderSess(k, m)

Fabitn(n, i, l) ==
  \* 3 RHO test combinations, masked by 3 RHO + RHO discarded bits (fix: aBit test masking, DESIGN 11)
  LET m == l + 4 * RHO IN
  << [k \in 1..(n - 1) |-> OtChain(i, Peers(n, i)[k], m)] >>
  \* the test combinations are expanded from a coin toss made after the OTs (fix, DESIGN 11)
  \o Broadcast(n, i, "RNG comm", 40) \o << UniG(n, i, "RNG ver", 40) >>
  \o << UniG(n, i, "fabitn", 8 + 17 * 3 * RHO) >> \o BcastVer(n, i, "fabitn")

Fashare(n, i, l) ==
  Fabitn(n, i, l + RHO)
  \o Broadcast(n, i, "fashare comm", 8 + 96 * RHO)
  \o Broadcast(n, i, "fashare ver", 8 + RHO * (8 + 1 + 16 * (n - 1)))
  \o Broadcast(n, i, "fashare di_bi", 8 + 16 * RHO)

\* beaver_aand -> faand -> flaand -> fhaand, check_dvalue
BeaverAand(n, i, l) ==
  LET b == BucketSize(l)
      lp == l * b IN
  << UniG(n, i, "haand", 8 + 2 * lp) >>
  \o << UniG(n, i, "flaand", 8 + 17 * lp) >> \o BcastVer(n, i, "flaand")
  \o Broadcast(n, i, "flaand comm", 8 + 32 * lp)
  \o Broadcast(n, i, "flaand hash", 8 + 16 * lp)
  \* the bucket assignment is drawn from a coin toss made after the leaky ANDs have been checked (fix, DESIGN 11)
  \o Broadcast(n, i, "RNG comm", 40) \o << UniG(n, i, "RNG ver", 40) >>
  \o << UniG(n, i, "dvalue", 8 + l * (16 + 17 * (b - 1))) >>
  \o << UniG(n, i, "faand", 8 + 34 * l) >>

RECURSIVE ConcatMap(_, _, _)
\* concatenation of F(s[k]) for k = from..Len(s)
ConcatMap(F(_), s, from) == IF from > Len(s) THEN << >> ELSE F(s[from]) \o ConcatMap(F, s, from + 1)

-----------------------------------------------------------------------------
SecretBits(c) == NumInputs(c) + c.ands

PreIndep(cfg, i) ==
  LET n == cfg.n
      sb == SecretBits(cfg.circ) IN
  << UniG(n, i, "RNG comm", 40), UniG(n, i, "RNG ver", 40) >>       \* shared_rng_pairwise
  \o Broadcast(n, i, "RNG comm", 40) \o << UniG(n, i, "RNG ver", 40) >>  \* shared_rng
  \o ConcatMap(LAMBDA l : Fashare(n, i, l), ChunkSizes(sb, BatchSize(sb)), 1)

GenAuthBits(cfg, i) ==
  LET n == cfg.n
      a == cfg.circ.ands IN
  IF a = 0 THEN << >>
  ELSE ConcatMap(LAMBDA l : Fashare(n, i, l * BucketSize(l) * 3) \o BeaverAand(n, i, l),
                 ChunkSizes(a, BatchSize(a)), 1)

GateLen(n) == 4 * (8 + (1 + 8 + 16 * n + 16) + 16)

Garble(cfg, i) ==
  LET n == cfg.n
      a == cfg.circ.ands
      sizes == ChunkSizes(a, BatchSize(a)) IN
  IF a = 0 THEN << >>
  ELSE IF i # cfg.pe
       THEN << << [k \in 1..Len(sizes) |-> Op("S", cfg.pe, "preprocessed gates", 8 + sizes[k] * GateLen(n))] >> >>
       ELSE << [j \in 1..(n - 1) |->
                  [k \in 1..Len(sizes) |-> Op("R", Peers(n, i)[j], "preprocessed gates", 8 + sizes[k] * GateLen(n))]] >>

InputProcessing(cfg, i) ==
  LET n == cfg.n
      c == cfg.circ
      S(q) == Cardinality(InputRegsOf(c, q)) IN
  << ScatterG(n, i, "wire shares", LAMBDA q : 8 + c.mr + 17 * S(q), LAMBDA q : 8 + c.mr + 17 * S(i)) >>
  \o << ScatterG(n, i, "masked inputs", LAMBDA q : 8 + c.mr + S(i), LAMBDA q : 8 + c.mr + S(q)) >>
  \o BcastVer(n, i, "masked inputs")
  \o (IF i # cfg.pe
      THEN << << << Op("S", cfg.pe, "labels", 8 + c.mr + 16 * Cardinality(AllInputRegs(c))) >> >> >>
      ELSE << [j \in 1..(n - 1) |-> << Op("R", Peers(n, i)[j], "labels", 8 + c.mr + 16 * Cardinality(AllInputRegs(c))) >>] >>)

\* the output parties other than i, in the order (and multiplicity) given
RECURSIVE PoOthers(_, _, _)
PoOthers(po, i, k) ==
  IF k > Len(po) THEN << >>
  ELSE (IF po[k] # i THEN << po[k] >> ELSE << >>) \o PoOthers(po, i, k + 1)

InPo(cfg, i) == \E k \in 1..Len(cfg.po) : cfg.po[k] = i

Output(cfg, i) ==
  LET n == cfg.n
      c == cfg.circ
      len == 8 + c.mr + 17 * Cardinality(UniqueOutRegs(c))
      dst == PoOthers(cfg.po, i, 1)
      NonEmpty(g) == IF Len(g) = 0 THEN << >> ELSE << g >> IN
  NonEmpty([k \in 1..Len(dst) |-> << Op("S", dst[k], "output wire shares", len) >>])
  \o (IF InPo(cfg, i)
      THEN << [k \in 1..(n - 1) |-> << Op("R", Peers(n, i)[k], "output wire shares", len) >>] >>
      ELSE << >>)
  \o (IF i = cfg.pe
      THEN NonEmpty([k \in 1..Len(dst) |-> << Op("S", dst[k], "lambda", len) >>])
      ELSE IF InPo(cfg, i) THEN << << << Op("R", cfg.pe, "lambda", len) >> >> >> ELSE << >>)

Program(cfg, i) ==
  PreIndep(cfg, i) \o GenAuthBits(cfg, i) \o Garble(cfg, i) \o InputProcessing(cfg, i) \o Output(cfg, i)

\* index of the first group of the output phase (everything a party is sent
\* from here on is output opening, C05)
OutputStart(cfg, i) == Len(Program(cfg, i)) - Len(Output(cfg, i)) + 1

NumOps(P) ==
  LET RECURSIVE G(_) RECURSIVE Cn(_, _)
      Cn(g, c) == IF c = 0 THEN 0 ELSE Len(g[c]) + Cn(g, c - 1)
      G(k) == IF k = 0 THEN 0 ELSE Cn(P[k], Len(P[k])) + G(k - 1)
  IN G(Len(P))
=============================================================================

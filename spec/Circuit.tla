------------------------------ MODULE Circuit ------------------------------
(***************************************************************************)
(* Register circuits as polytune executes them (garble_lang register       *)
(* circuits), in the record shape the harness writes to JSON:              *)
(*   [ir |-> inputs per party, insts |-> <<[op, a, b, out]>>, mr |-> number *)
(*    of registers, or |-> output registers, ands |-> declared AND count]   *)
(* Registers, parties and input indices are 0-based as in the code.        *)
(* ClearEval is the clear-text oracle of C01/C02/C12/C13.                   *)
(***************************************************************************)
EXTENDS Naturals, Sequences, FiniteSets

NParties(c) == Len(c.ir)
Parties(c) == 0 .. (NParties(c) - 1)

IsInput(i) == i.op = "I"
IsAnd(i)   == i.op = "A"

InputInsts(c) == { k \in 1..Len(c.insts) : IsInput(c.insts[k]) }
NumInputs(c) == Cardinality(InputInsts(c))
NumAnds(c) == Cardinality({ k \in 1..Len(c.insts) : IsAnd(c.insts[k]) })

\* output registers of the Input instructions of party q
InputRegsOf(c, q) == { c.insts[k].out : k \in { j \in InputInsts(c) : c.insts[j].a = q } }
AllInputRegs(c) == { c.insts[k].out : k \in InputInsts(c) }
UniqueOutRegs(c) == { c.or[j] : j \in 1..Len(c.or) }

RECURSIVE EvalFrom(_, _, _, _)
EvalFrom(insts, inputs, regs, k) ==
  IF k > Len(insts) THEN regs
  ELSE LET i == insts[k]
           v == CASE i.op = "I" -> inputs[i.a + 1][i.b + 1]
                  [] i.op = "A" -> regs[i.a + 1] /\ regs[i.b + 1]
                  [] i.op = "X" -> regs[i.a + 1] # regs[i.b + 1]
                  [] i.op = "N" -> ~regs[i.a + 1]
       IN EvalFrom(insts, inputs, [regs EXCEPT ![i.out + 1] = v], k + 1)

\* inputs[p+1] = sequence of party p's input bits
ClearEval(c, inputs) ==
  LET regs == EvalFrom(c.insts, inputs, [r \in 1..c.mr |-> FALSE], 1)
  IN [j \in 1..Len(c.or) |-> regs[c.or[j] + 1]]

(***************************************************************************)
(* Validity as the engine needs it (C18 uses the negation): what           *)
(* garble_lang's validate() checks plus what mpc() silently relies on.     *)
(***************************************************************************)
RegOK(c, r) == r \in 0 .. (c.mr - 1)

RECURSIVE WrittenBefore(_, _)
WrittenBefore(c, k) == IF k <= 1 THEN {} ELSE WrittenBefore(c, k - 1) \cup { c.insts[k - 1].out }

InstOK(c, k) ==
  LET i == c.insts[k] IN
  /\ RegOK(c, i.out)
  /\ CASE i.op = "I" -> i.out = k - 1
       [] i.op = "N" -> RegOK(c, i.a) /\ i.a \in WrittenBefore(c, k)
       [] OTHER      -> RegOK(c, i.a) /\ RegOK(c, i.b)
                        /\ i.a \in WrittenBefore(c, k) /\ i.b \in WrittenBefore(c, k)

\* what garble_lang::register_circuit::Circuit::validate accepts
LibValid(c) ==
  /\ \E p \in 1..Len(c.ir) : c.ir[p] # 0
  /\ Len(c.or) > 0
  /\ \A j \in 1..Len(c.or) : RegOK(c, c.or[j])
  /\ \A k \in 1..Len(c.insts) : InstOK(c, k)

RECURSIVE SumIr(_, _)
SumIr(c, j) == IF j = 0 THEN 0 ELSE c.ir[j] + SumIr(c, j - 1)

\* what the engine additionally relies on: Input instructions form a prefix,
\* each (party, input) pair occurs exactly once and is in range, counters agree
EngineValid(c) ==
  /\ LibValid(c)
  /\ \A k \in 1..Len(c.insts) : IsInput(c.insts[k]) => \A j \in 1..k : IsInput(c.insts[j])
  /\ \A k \in InputInsts(c) : /\ c.insts[k].a \in Parties(c)
                              /\ c.insts[k].b < c.ir[c.insts[k].a + 1]
  /\ \A k1, k2 \in InputInsts(c) :
        (c.insts[k1].a = c.insts[k2].a /\ c.insts[k1].b = c.insts[k2].b) => k1 = k2
  /\ NumInputs(c) = SumIr(c, Len(c.ir))
  /\ NumAnds(c) = c.ands
=============================================================================

------------------------------- MODULE Mon_C07 -------------------------------
(***************************************************************************)
(* Property monitor for C07 over the transcript of one run at a time       *)
(* (honest runs and runs with a corrupted party that keep going): the set  *)
(* V of all decoded 128-bit fields of ALL messages (what a party sends     *)
(* pooled with what the others hold about it and later transmit) and the   *)
(* probed global key D of every party judged (cfg.tag.judge) that returned *)
(* Ok (a deviation that makes the party abort ends the life of its key):   *)
(*    D \notin V;   no v1, v2 \in V with v1 XOR v2 = D;                     *)
(*    (cfg.tag.triples) no v1, v2, v3 \in V with v1 XOR v2 XOR v3 = D;       *)
(*    D occurs at no byte offset of any message, in either byte order.      *)
(***************************************************************************)
EXTENDS TraceBase, Limbs, FiniteSets

VARIABLES l, cur, ds, okp, errp, viol, nchk, nvals
vars == << l, cur, ds, okp, errp, viol, nchk, nvals >>
Init == l = 1 /\ cur = [run |-> "none"] /\ ds = << >> /\ okp = {} /\ errp = {} /\ viol = << >> /\ nchk = 0 /\ nvals = 0
e == Rec[l]

ChannelLoss(err) == err \in {"PreprocessingError.ChannelErr.RecvError", "PreprocessingError.ChannelErr.SendError",
                             "ChannelError.RecvError", "ChannelError.SendError"}
Judged == { cur.tag.judge[k] : k \in 1..Len(cur.tag.judge) }
RawHit(p) == \E k \in 1..Len(e.raw) : e.raw[k].p = p /\ e.raw[k].hits > 0

\* Vs = all decoded 128-bit fields, F1 = their first limbs (a cheap filter
\* before the full 128-bit XOR); both are passed in already evaluated
Leak1(d, Vs) == d \in Vs
Leak2(d, Vs, F1) == \E v \in Vs : Xor16(v[1], d[1]) \in F1 /\ XorL(v, d) \in Vs
Leak3(d, Vs) == \E v1 \in Vs : \E v2 \in Vs : XorL(XorL(v1, v2), d) \in Vs

BadFor(p, Vs, F1) ==
  IF p \notin DOMAIN ds THEN ""
  ELSE IF RawHit(p) THEN "the global key occurs in the raw traffic"
  ELSE IF Leak1(ds[p], Vs) THEN "a transmitted 128-bit field equals the global key"
  ELSE IF Leak2(ds[p], Vs, F1) THEN "the XOR of two transmitted 128-bit fields equals the global key"
  ELSE IF cur.tag.triples /\ Leak3(ds[p], Vs) THEN "the XOR of three transmitted 128-bit fields equals the global key"
  ELSE ""
\* A party that stays in the run (Ok, or it merely lost its peer) is judged on every transmitted field.  A party that
\* ABORTED on a protocol check is judged too -- "an opened key sum is never offset by the global key at a peer's
\* choosing" has no exception for a party that notices afterwards -- but without the leaky-AND check values: those are
\* offset by the key whenever the triple is wrong, by the design of the protocol (DESIGN 13, Wrk17Pre.AbortLeakExact),
\* and the run ends there.
FieldsViol ==
  LET Vs == { e.vals[k] : k \in 1..Len(e.vals) }
      F1 == { e.vals[k][1] : k \in 1..Len(e.vals) }
      Ws == { e.vals_nolaand[k] : k \in 1..Len(e.vals_nolaand) }
      G1 == { e.vals_nolaand[k][1] : k \in 1..Len(e.vals_nolaand) }
      Msg(p) == IF p \in okp THEN BadFor(p, Vs, F1)
                ELSE IF p \in errp THEN (IF BadFor(p, Ws, G1) = "" THEN "" ELSE BadFor(p, Ws, G1) \o " (party that aborted afterwards)")
                ELSE ""
      bad == { p \in Judged : Msg(p) # "" } IN
  IF bad = {} THEN << >>
  ELSE LET p == CHOOSE x \in bad : TRUE IN << [line |-> l, run |-> cur.run, what |-> Msg(p), p |-> p] >>

Next ==
  /\ l <= NRec /\ l' = l + 1
  /\ cur' = IF e.ev = "cfg" THEN e ELSE cur
  /\ ds' = IF e.ev = "cfg" THEN << >>
           ELSE IF e.ev = "probe" /\ e.name = "delta" THEN (e.p :> e.vals[1]) @@ ds ELSE ds
  \* judged: returned Ok, or merely lost its peer (a channel error is not a detection:
  \* a real cheater would have carried on instead of stopping like the harness's one)
  /\ okp' = IF e.ev = "cfg" THEN {}
            ELSE IF e.ev = "res" /\ (e.kind = "ok" \/ (e.kind = "err" /\ ChannelLoss(e.err))) THEN okp \cup {e.p} ELSE okp
  /\ errp' = IF e.ev = "cfg" THEN {}
             ELSE IF e.ev = "res" /\ e.kind = "err" /\ ~ChannelLoss(e.err) THEN errp \cup {e.p} ELSE errp
  /\ nchk' = IF e.ev = "fields" THEN nchk + 1 ELSE nchk
  /\ nvals' = IF e.ev = "fields" THEN nvals + Len(e.vals) ELSE nvals
  /\ viol' = IF e.ev = "fields" /\ Len(viol) < 10 THEN viol \o FieldsViol ELSE viol
Spec == Init /\ [][Next]_vars
Report == (l = NRec + 1) => JsonSerialize(IOEnv.OUT, [total |-> NRec, checked |-> nchk, fields |-> nvals, viol |-> viol])
=============================================================================

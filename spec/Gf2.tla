--------------------------------- MODULE Gf2 ---------------------------------
(***************************************************************************)
(* Symbolic 128-bit values as vectors over GF(2): a value is a finite set  *)
(* of atoms, XOR is symmetric difference.  Span membership by incremental  *)
(* Gaussian elimination: a basis is a set of << pivot, vector >> pairs in   *)
(* reduced echelon form (a pivot occurs in no other basis vector).          *)
(***************************************************************************)
EXTENDS FiniteSets
Sym(A, B) == (A \ B) \cup (B \ A)

RECURSIVE Reduce(_, _)
Reduce(v, B) ==
  LET hits == { b \in B : b[1] \in v } IN
  IF hits = {} THEN v ELSE LET b == CHOOSE x \in hits : TRUE IN Reduce(Sym(v, b[2]), B)

AddVec(B, v) ==
  LET w == Reduce(v, B) IN
  IF w = {} THEN B
  ELSE LET p == CHOOSE a \in w : TRUE IN
       { IF p \in b[2] THEN << b[1], Sym(b[2], w) >> ELSE b : b \in B } \cup { << p, w >> }

RECURSIVE Basis(_)
Basis(V) == IF V = {} THEN {} ELSE LET v == CHOOSE x \in V : TRUE IN AddVec(Basis(V \ {v}), v)

InSpan(t, V) == Reduce(t, Basis(V)) = {}
=============================================================================

-------------------------------- MODULE Prims --------------------------------
(***************************************************************************)
(* Definitions of the stateless primitives (C20).  AES-128 is an           *)
(* uninterpreted permutation pi whose values at the queried points are      *)
(* supplied with the record.                                                 *)
(***************************************************************************)
EXTENDS Limbs, FiniteSets
\* carry-less (GF(2)[x]) product of two 128-bit polynomials: bit t of the 255-bit result
OnesOf(a) == { k \in 0..127 : BitOf(a, k) = 1 }
ClmulBit(A, B, t) == Cardinality({ i \in A : t >= i /\ (t - i) \in B }) % 2
\* the code returns the product split into (low, high) 128-bit halves
ClmulOk(a, b, lo, hi) ==
  LET A == OnesOf(a)
      B == OnesOf(b) IN
  /\ \A t \in 0..127 : BitOf(lo, t) = ClmulBit(A, B, t)
  /\ \A t \in 0..127 : BitOf(hi, t) = IF t = 127 THEN 0 ELSE ClmulBit(A, B, 128 + t)
\* fixed-key hashes
CrOk(x, pix, cr) == cr = XorL(pix, x)
TccrOk(pix, pipixt, tccr) == tccr = XorL(pipixt, pix)
\* counter mode: the first n bytes of pi_seed(0) || pi_seed(1) || ...
CtrOk(out, keystream) == out = SubSeq(keystream, 1, Len(out))
\* transpose: one sampled position packed as i*2^15 + j*2^3 + in*4 + out_dispatch*2 + out_portable
TrOk(w) == LET inb == (w \div 4) % 2 IN ((w \div 2) % 2 = inb) /\ (w % 2 = inb)
=============================================================================

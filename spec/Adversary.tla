------------------------------ MODULE Adversary ------------------------------
(***************************************************************************)
(* The deviation space of ONE corrupted party c of polytune::mpc, derived  *)
(* from the communication skeleton (Skeleton.tla) and the shape of each    *)
(* message.  TLC enumerates it for a public configuration and prints one   *)
(* JSON scenario per deviation; the harness applies the deviation to the   *)
(* real message in flight (decode, alter, re-encode) while c otherwise     *)
(* runs the honest code.                                                    *)
(*                                                                          *)
(* Families:                                                                *)
(*  "malformed" (C08)  every message c sends x every malformation class    *)
(*                     (byte level and structure aware), and c vanishing    *)
(*                     instead of sending it;                               *)
(*  "online"    (C03)  every authenticated field of the online phase;       *)
(*  "pre"       (C04)  every value checked by a preprocessing verification  *)
(*                     step, at sampled indices of the checked vector,      *)
(*                     once or persistently, to one or to all recipients.   *)
(* A scenario names what the property demands of the honest parties:        *)
(*   expect = "noabort"   nothing beyond Ok/Err in bounded time (C08)       *)
(*            "victims"   every party in `victims` must return Err          *)
(* C02 (integrity) is judged on every scenario.                             *)
(***************************************************************************)
EXTENDS Skeleton, TLC, Json

Parties0(n) == 0 .. (n - 1)

\* messages c sends to q, in order, with the index among equally labelled ones
Flat(Pp) == LET RECURSIVE G(_) RECURSIVE Cn(_, _)
                Cn(g, k) == IF k > Len(g) THEN << >> ELSE g[k] \o Cn(g, k + 1)
                G(k) == IF k > Len(Pp) THEN << >> ELSE Cn(Pp[k], 1) \o G(k + 1)
            IN G(1)
Sends(cfg, c, q) == SelectSeq(Flat(Program(cfg, c)), LAMBDA o : o.d = "S" /\ o.q = q)
KPhase(s, j) == Cardinality({ i \in 1..(j - 1) : s[i].ph = s[j].ph })

Dev(c, to, ph, k, m) == [from |-> c, to |-> to, phase |-> ph, k |-> k, mut |-> m]
\* to = ALL: every recipient; k = ALL: every instance (persistent attacker)
ALL == 99

M(name) == [m |-> name]
MAt(name, at) == [m |-> name, at |-> at]
MOff(off, bit) == [m |-> "FlipBit", off |-> off, bit |-> bit]
MPath(name, path) == [m |-> name, path |-> path]
MBit(path, bit) == [m |-> "XorBit", path |-> path, bit |-> bit]
MK(name, path, k) == [m |-> name, path |-> path, cnt |-> k]

Scn(fam, c, devs, expect, victims, what) ==
  [fam |-> fam, c |-> c, devs |-> devs, expect |-> expect, victims |-> victims, what |-> what]

\* ---------------------------------------------------------------------------
\* C08: malformation classes
RawClasses(len) ==
  { M("Empty"), MAt("Truncate", 1), MAt("Truncate", len \div 2), MAt("Truncate", len - 1),
    MOff(0, 0), MOff(1, 3), MOff(7, 7), MOff(Min(8, len - 1), 0), MOff(len - 1, 7),
    [m |-> "Append", n |-> 1], [m |-> "Append", n |-> 64],
    [m |-> "Random", len |-> len, seed |-> len], [m |-> "Random", len |-> 3, seed |-> 7], M("Crash") }

\* structure-aware classes by message shape (mirrors harness/src/adv.rs schema())
Nested(ph) == ph \in {"CO_OT_r", "ALSZ_OT_setup", "fashare ver", "dvalue", "preprocessed gates"}
Optional(ph) == ph \in {"wire shares", "output wire shares", "lambda", "masked inputs", "labels"}
HasBool(ph) == ph \in {"fabitn", "haand", "flaand", "faand"}
IsBcast(ph) == SubSeq(ph, 1, Min(Len(ph), 10)) = "broadcast "
TreeClasses(ph) ==
  { MK("Shorten", << >>, 1), MK("Lengthen", << >>, 1), MPath("Clear", << >>) }
  \cup (IF Nested(ph) /\ ph # "dvalue" /\ ph # "preprocessed gates"
        THEN { MK("Shorten", << 0 >>, 1), MK("Lengthen", << 0 >>, 3), MPath("Clear", << 0 >>) } ELSE {})
  \cup (IF ph = "dvalue"
        THEN { MK("Shorten", << 0, 0 >>, 1), MK("Shorten", << 0, 1 >>, 1), MPath("Clear", << 0, 0 >>), MPath("Clear", << 0, 1 >>),
               MK("Lengthen", << 0, 1 >>, 2) } ELSE {})
  \cup (IF ph = "preprocessed gates"
        THEN { MK("Shorten", << 0, 2 >>, 1), MPath("Clear", << 0, 0 >>), MK("Lengthen", << 0, 3 >>, 5) } ELSE {})
  \cup (IF Nested(ph)
        THEN { [m |-> "ShortenEach", path |-> << >>, cnt |-> 1], [m |-> "LengthenEach", path |-> << >>, cnt |-> 1],
               [m |-> "ClearEach", path |-> << >>] } ELSE {})
  \cup (IF HasBool(ph) THEN { [m |-> "SetByte", path |-> << 0, 0 >>, val |-> 2] } ELSE {})
  \cup (IF IsBcast(ph) THEN { [m |-> "ToSomeAny"], [m |-> "ToNoneAny"] } ELSE {})
  \cup (IF Optional(ph) THEN { [m |-> "ToSomeAny"], [m |-> "ToNoneAny"], [m |-> "ToNoneAll"], [m |-> "ToSomeLast"] } ELSE {})

Malformed(cfg, c) ==
  UNION { UNION { { Scn("malformed", c, << Dev(c, q, Sends(cfg, c, q)[j].ph, KPhase(Sends(cfg, c, q), j), m) >>,
                        "noabort", {}, Sends(cfg, c, q)[j].ph \o ":" \o m.m) :
                      m \in RawClasses(Sends(cfg, c, q)[j].len) \cup TreeClasses(Sends(cfg, c, q)[j].ph) } :
                  j \in 1..Len(Sends(cfg, c, q)) } :
          q \in Parties0(cfg.n) \ {c} }

\* ---------------------------------------------------------------------------
\* C03: authenticated fields of the online phase
Bits == {0, 77, 127}
Pairs(S) == { p \in S \X S : p[1] < p[2] }
Online(cfg, c) ==
  LET n == cfg.n
      circ == cfg.circ
      Others == Parties0(n) \ {c}
      ands == { k \in 1..Len(circ.insts) : IsAnd(circ.insts[k]) }
      \* index of the AND gate among the AND gates (position in the garbled-gates message)
      AndIdx(k) == Cardinality({ j \in ands : j < k }) IN
  \* mask-share bit / MAC sent to the owner of an input wire
  UNION { UNION { { Scn("online", c, << Dev(c, q, "wire shares", 0, MPath("Flip", << r, 0 >>)) >>, "victims", {q}, "input share bit") }
                  \cup { Scn("online", c, << Dev(c, q, "wire shares", 0, MBit(<< r, 1 >>, b)) >>, "victims", {q}, "input share MAC") : b \in Bits } :
                  r \in InputRegsOf(circ, q) } : q \in Others }
  \cup
  \* mask-share bit / MAC sent to an output party
  UNION { UNION { { Scn("online", c, << Dev(c, q, "output wire shares", 0, MPath("Flip", << r, 0 >>)) >>, "victims", {q}, "output share bit") }
                  \cup { Scn("online", c, << Dev(c, q, "output wire shares", 0, MBit(<< r, 1 >>, b)) >>, "victims", {q}, "output share MAC") : b \in Bits } :
                  r \in UniqueOutRegs(circ) } : q \in { p \in Others : InPo(cfg, p) } }
  \cup
  \* an authenticated share LEFT OUT (None in its slot): nothing verifies, so nothing may be used
  UNION { { Scn("online", c, << Dev(c, q, "wire shares", 0, MPath("ToNone", << r >>)) >>, "victims", {q}, "input share omitted") :
              r \in InputRegsOf(circ, q) } : q \in Others }
  \cup
  UNION { { Scn("online", c, << Dev(c, q, "output wire shares", 0, MPath("ToNone", << r >>)) >>, "victims", {q}, "output share omitted") :
              r \in UniqueOutRegs(circ) } : q \in { p \in Others : InPo(cfg, p) } }
  \cup
  \* the same alteration at TWO positions of one message (aggregated checks must not let them cancel)
  UNION { UNION { { Scn("online", c, << Dev(c, q, "wire shares", 0, MPath("Flip", << pr[1], 0 >>)), Dev(c, q, "wire shares", 0, MPath("Flip", << pr[2], 0 >>)) >>,
                "victims", {q}, "two input share bits"),
            Scn("online", c, << Dev(c, q, "wire shares", 0, MBit(<< pr[1], 1 >>, 77)), Dev(c, q, "wire shares", 0, MBit(<< pr[2], 1 >>, 77)) >>,
                "victims", {q}, "two input share MACs") } :
          pr \in Pairs(InputRegsOf(circ, q)) } : q \in Others }
  \cup
  UNION { { Scn("online", c, << Dev(c, q, "output wire shares", 0, MPath("Flip", << pr[1], 0 >>)), Dev(c, q, "output wire shares", 0, MPath("Flip", << pr[2], 0 >>)) >>,
                "victims", {q}, "two output share bits"),
            Scn("online", c, << Dev(c, q, "output wire shares", 0, MBit(<< pr[1], 1 >>, 77)), Dev(c, q, "output wire shares", 0, MBit(<< pr[2], 1 >>, 77)) >>,
                "victims", {q}, "two output share MACs") } :
          q \in { p \in Others : InPo(cfg, p) }, pr \in Pairs(UniqueOutRegs(circ)) }
  \cup
  (IF c = cfg.pe THEN
     UNION { { Scn("online", c, << Dev(c, q, "lambda", 0, MPath("Flip", << pr[1], 0 >>)), Dev(c, q, "lambda", 0, MPath("Flip", << pr[2], 0 >>)) >>,
                   "victims", {q}, "two revealed values"),
               Scn("online", c, << Dev(c, q, "lambda", 0, MBit(<< pr[1], 1 >>, 77)), Dev(c, q, "lambda", 0, MBit(<< pr[2], 1 >>, 77)) >>,
                   "victims", {q}, "two revealed labels") } :
             q \in { p \in Others : InPo(cfg, p) }, pr \in Pairs(UniqueOutRegs(circ)) }
   ELSE
     { Scn("online", c, << Dev(c, cfg.pe, "labels", 0, MBit(<< pr[1] >>, 77)), Dev(c, cfg.pe, "labels", 0, MBit(<< pr[2] >>, 77)) >>,
           "victims", {cfg.pe}, "two input labels") : pr \in Pairs(AllInputRegs(circ)) })
  \cup
  \* a garbler alters an input label, a row ciphertext (same bit in all four rows
  \* of one gate, so that the row the evaluator opens is hit) or the share it garbles
  (IF c # cfg.pe THEN
     { Scn("online", c, << Dev(c, cfg.pe, "labels", 0, MBit(<< r >>, b)) >>, "victims", {cfg.pe}, "input label") :
         r \in AllInputRegs(circ), b \in Bits }
     \cup
     { Scn("online", c, [row \in 1..4 |-> Dev(c, cfg.pe, "preprocessed gates", ALL, MBit(<< AndIdx(k), row - 1 >>, b))],
           "victims", {cfg.pe}, "garbled row") : k \in ands, b \in {0, 9, 200, 407} }
     \cup
     { Scn("online", c, << [from |-> c, tap |-> "garble_row_bit", idx |-> k - 1] >>, "victims", {cfg.pe}, "garbled share") : k \in ands }
   ELSE
  \* the evaluator alters the revealed output value or label
     UNION { UNION { { Scn("online", c, << Dev(c, q, "lambda", 0, MPath("Flip", << r, 0 >>)) >>, "victims", {q}, "revealed value") }
                     \cup { Scn("online", c, << Dev(c, q, "lambda", 0, MBit(<< r, 1 >>, b)) >>, "victims", {q}, "revealed label") : b \in Bits } :
                     r \in UniqueOutRegs(circ) } : q \in { p \in Others : InPo(cfg, p) } })
  \cup
  \* two coordinated alterations of a corrupted EVALUATOR: it announces a different masked input to one output party
  \* and flips, for the same party, the revealed value of an output wire (the label it holds for that wire then matches
  \* what this party expects if the wire depends on the input through XOR / NOT only): if the equivocation went
  \* unnoticed, two honest parties would accept values that no single input of the evaluator explains (C02: agreement)
  (IF n >= 3 /\ c = cfg.pe THEN
     { Scn("online", c, << Dev(c, q, "masked inputs", 0, MPath("Flip", << r >>)), Dev(c, q, "lambda", 0, MPath("Flip", << o, 0 >>)) >>,
           "victims", Others, "equivocation with matching revealed value") :
         q \in { p \in Others : InPo(cfg, p) }, r \in InputRegsOf(circ, c), o \in UniqueOutRegs(circ) }
   ELSE {})
  \cup
  \* a masked value announced for a register that is no input wire (nothing is demanded of the outcome
  \* here; the key-secrecy monitor looks at what the garblers answer)
  { Scn("online", c, << Dev(c, ALL, "masked inputs", 0, [m |-> "ToSome", path |-> << r >>]) >>
                       \o (IF b = 1 THEN << Dev(c, ALL, "masked inputs", 0, MPath("Flip", << r >>)) >> ELSE << >>),
        "noabort", {}, "masked value for a non-input register") :
      b \in {0, 1}, r \in (0 .. (circ.mr - 1)) \ AllInputRegs(circ) }
  \cup
  \* different masked inputs to different recipients (needs two honest recipients)
  (IF n >= 3 THEN
     { Scn("online", c, << Dev(c, q, "masked inputs", 0, MPath("Flip", << r >>)) >>, "victims", Others, "masked input equivocation") :
         q \in Others, r \in InputRegsOf(circ, c) }
   ELSE {})

\* ---------------------------------------------------------------------------
\* C04: values checked by the preprocessing
Pos(len) == {0, len \div 2, len - 1}
Pre(cfg, c) ==
  LET n == cfg.n
      Others == Parties0(n) \ {c}
      sb == SecretBits(cfg.circ)
      l1 == Head(ChunkSizes(sb, BatchSize(sb)))       \* first aShare call
      a == cfg.circ.ands
      la == IF a = 0 THEN 0 ELSE Head(ChunkSizes(a, BatchSize(a)))
      lp == la * BucketSize(la)
      \* one recipient / all recipients consistently; once / persistently
      Tgt == { << q, 0 >> : q \in Others } \cup { << ALL, 0 >>, << ALL, ALL >> }
      One(ph, m, what) == { Scn("pre", c, << Dev(c, t[1], ph, t[2], m) >>, "victims",
                                IF t[1] = ALL THEN Others ELSE {t[1]}, what) : t \in Tgt }
      Two(ph, m1, m2, what) == { Scn("pre", c, << Dev(c, t[1], ph, t[2], m1), Dev(c, t[1], ph, t[2], m2) >>, "victims",
                                     IF t[1] = ALL THEN Others ELSE {t[1]}, what) : t \in Tgt } IN
  \* coin tossing: commitment, opening (pairwise toss k=0, multi-party toss k=1)
  UNION { One("RNG comm", MBit(<< 0 >>, b), "coin-toss commitment") : b \in {0, 255} }
  \cup UNION { One("RNG ver", MPath("Flip", << i >>), "coin-toss opening") : i \in {0, 31} }
  \* aBit: combined bit / its MAC
  \cup UNION { One("fabitn", MPath("Flip", << i, 0 >>), "aBit test bit") \cup One("fabitn", MBit(<< i, 1 >>, 5), "aBit test MAC") : i \in Pos(3 * RHO) }
  \* aShare: commitments (both openable ones), committed MAC vector, its opening, check bit, opened key sum
  \cup UNION { Two("fashare comm", MBit(<< r, 0 >>, 3), MBit(<< r, 1 >>, 3), "aShare commitment to d0/d1")
               \cup One("fashare comm", MBit(<< r, 2 >>, 3), "aShare commitment to the MAC vector")
               \cup One("fashare ver", MBit(<< r >>, 0), "aShare check bit")
               \cup One("fashare ver", MBit(<< r >>, 8 + 3), "aShare MAC in the decommitment")
               \cup One("fashare di_bi", MBit(<< r >>, 100), "aShare opened key sum") : r \in Pos(RHO) }
  \cup
  (IF a = 0 THEN {} ELSE
     \* HaAND (both bits of one index), LaAND e bit / hash / commitment, d-values, Beaver openings
     \* (flipped towards two honest recipients the two errors cancel: one recipient only)
     UNION { { Scn("pre", c, << Dev(c, q, "haand", 0, MPath("Flip", << i, 0 >>)), Dev(c, q, "haand", 0, MPath("Flip", << i, 1 >>)) >>,
                   "victims", {q}, "HaAND bits") : q \in Others }
             \cup One("flaand", MPath("Flip", << i, 0 >>), "LaAND e bit")
             \cup One("flaand comm", MBit(<< i >>, 9), "LaAND commitment")
             \cup One("flaand hash", MBit(<< i >>, 9), "LaAND check value") : i \in Pos(lp) }
     \cup UNION { One("dvalue", MPath("Flip", << j, 0, 0 >>), "d-value bit") \cup One("dvalue", MBit(<< j, 1, 0 >>, 64), "d-value MAC") : j \in Pos(la) }
     \cup UNION { One("faand", MPath("Flip", << j, 0 >>), "Beaver d") \cup One("faand", MPath("Flip", << j, 1 >>), "Beaver e")
                  \cup One("faand", MBit(<< j, 2 >>, 1), "Beaver d MAC") \cup One("faand", MBit(<< j, 3 >>, 126), "Beaver e MAC") : j \in Pos(la) })
  \* a RUSHING party that sends back what it received (n = 2): its leaky AND is wrong (flipped e bit), its commitment and
  \* its check value are copies of the victim's -- two equal check values XOR to zero.  The victim must notice BY ITSELF
  \* ("detect": an error because the peer has gone does not count: a real cheater would have carried on)
  \cup (IF a = 0 \/ n # 2 THEN {} ELSE
          { Scn("pre", c, << Dev(c, q, "flaand", 0, MPath("Flip", << 0, 0 >>)), Dev(c, q, "flaand comm", 0, [m |-> "Mirror", inst |-> 0]),
                            Dev(c, q, "flaand hash", 0, [m |-> "Mirror", inst |-> 0]) >>,
                "detect", {q}, "mirrored LaAND commitment and check value") : q \in Others }
          \cup
          \* the same for the other commit / open rounds: the multi-party coin toss (instance 1 of the phases) and the
          \* aShare consistency round
          { Scn("pre", c, << Dev(c, q, "RNG comm", 1, [m |-> "Mirror", inst |-> 1]), Dev(c, q, "RNG ver", 1, [m |-> "Mirror", inst |-> 1]) >>,
                "detect", {q}, "mirrored coin-toss commitment and opening") : q \in Others }
          \cup
          { Scn("pre", c, << Dev(c, q, "fashare comm", 0, [m |-> "Mirror", inst |-> 0]), Dev(c, q, "fashare ver", 0, [m |-> "Mirror", inst |-> 0]),
                            Dev(c, q, "fashare di_bi", 0, [m |-> "Mirror", inst |-> 0]) >>,
                "detect", {q}, "mirrored aShare commitments and openings") : q \in Others })
  \* a Beaver opening bit that the corrupted party flips towards everybody AND uses itself (tap: the lie is consistent
  \* with its own later computation; its MAC stays the one of the true bit)
  \cup (IF a = 0 THEN {} ELSE
          { Scn("pre", c, << [from |-> c, tap |-> t, idx |-> j] >>, "victims", Others, "consistent Beaver lie") :
              t \in {"beaver_d", "beaver_e"}, j \in {0, la - 1} })
  \* the same alteration at TWO positions of one checked vector (aggregated checks must not let them cancel)
  \cup UNION { Two("fabitn", MPath("Flip", << 0, 0 >>), MPath("Flip", << 3 * RHO - 1, 0 >>), "two aBit test bits")
               \cup Two("fabitn", MBit(<< 0, 1 >>, 5), MBit(<< 3 * RHO - 1, 1 >>, 5), "two aBit test MACs")
               \cup Two("fashare di_bi", MBit(<< 0 >>, 100), MBit(<< RHO - 1 >>, 100), "two aShare opened key sums")
               \cup Two("fashare ver", MBit(<< 0 >>, 0), MBit(<< RHO - 1 >>, 0), "two aShare check bits") : x \in {0} }
  \cup (IF a < 2 THEN {} ELSE
          Two("flaand hash", MBit(<< 0 >>, 9), MBit(<< lp - 1 >>, 9), "two LaAND check values")
          \cup Two("flaand", MPath("Flip", << 0, 0 >>), MPath("Flip", << lp - 1, 0 >>), "two LaAND e bits")
          \cup Two("dvalue", MPath("Flip", << 0, 0, 0 >>), MPath("Flip", << la - 1, 0, 0 >>), "two d-value bits")
          \cup Two("dvalue", MBit(<< 0, 1, 0 >>, 64), MBit(<< la - 1, 1, 0 >>, 64), "two d-value MACs")
          \cup Two("faand", MPath("Flip", << 0, 0 >>), MPath("Flip", << la - 1, 0 >>), "two Beaver d")
          \cup Two("faand", MPath("Flip", << 0, 1 >>), MPath("Flip", << la - 1, 1 >>), "two Beaver e")
          \cup Two("faand", MBit(<< 0, 2 >>, 1), MBit(<< la - 1, 2 >>, 1), "two Beaver d MACs")
          \cup Two("faand", MBit(<< 0, 3 >>, 126), MBit(<< la - 1, 3 >>, 126), "two Beaver e MACs"))
  \* OT extension correlation data (first session with each peer)
  \cup UNION { { Scn("pre", c, << Dev(c, q, "KOS_OT_x_t0_t1", 0, MBit(<< 0, f >>, 17)) >>, "victims", {q}, "KOS check value") : f \in {0, 1, 2} }
               \* (a correction block only matters where the receiver's choice bit is 1, a matrix column
               \*  only where the sender's base choice bit is 1: alter every one of them)
               \cup { Scn("pre", c, << Dev(c, q, "KOS_OT_corr", 0, [m |-> "XorBitEach", path |-> << >>, bit |-> 17]) >>, "victims", {q}, "OT corrections") }
               \cup { Scn("pre", c, << Dev(c, q, "ALSZ_OT_setup", 0, [m |-> "XorBitEach", path |-> << >>, bit |-> 40]) >>, "victims", {q}, "OT matrix columns") }
               \cup { Scn("pre", c, << Dev(c, q, "CO_OT_s", 0, MPath("Flip", << 3 >>)) >>, "victims", {q}, "base OT point S"),
                      Scn("pre", c, << Dev(c, q, "CO_OT_r", 0, MBit(<< 7 >>, 12)) >>, "victims", {q}, "base OT point R"),
                      Scn("pre", c, << Dev(c, q, "CO_OT_c0c1", 0, MBit(<< 9, 0 >>, 3)), Dev(c, q, "CO_OT_c0c1", 0, MBit(<< 9, 1 >>, 3)) >>,
                          "victims", {q}, "base OT ciphertexts") } : q \in Others }
  \* broadcast equivocation: a different first element to one recipient
  \cup (IF n >= 3 THEN
          { Scn("pre", c, << Dev(c, q, "fabitn", 0, MPath("Flip", << 1, 0 >>)) >>, "victims", Others, "equivocation: aBit bits") : q \in Others }
          \cup { Scn("pre", c, << Dev(c, q, "fashare comm", 0, MBit(<< 1, 2 >>, 0)) >>, "victims", Others, "equivocation: aShare commitments") : q \in Others }
          \cup { Scn("pre", c, << Dev(c, q, "broadcast fashare comm", 0, [m |-> "XorFirstSome", bit |-> 4]) >>, "victims", {q}, "equivocation: echoed hash") : q \in Others }
        ELSE {})

Scenarios(cfg, c, fam) ==
  CASE fam = "malformed" -> Malformed(cfg, c)
    [] fam = "online" -> Online(cfg, c)
    [] fam = "pre" -> Pre(cfg, c)
=============================================================================

SPECIFICATION Spec
CONSTANTS
  RHO = 40
  SSP = 40
  BFLOOR = 1000
  BMAX = 5
  BT4 = 3100
  BT3 = 280000
INVARIANT Report
CHECK_DEADLOCK FALSE

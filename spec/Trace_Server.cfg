SPECIFICATION TSpec
CONSTANTS
  N <- MCN
  NC <- MCNC
  Conc <- MCConc
  Pol <- MCPol
  Faults <- MCFaults
  FIX <- MCFIX
CONSTRAINT Track
POSTCONDITION Accepted
CHECK_DEADLOCK FALSE

------------------------------ MODULE Mon_C04c ------------------------------
(***************************************************************************)
(* Property monitor for the third clause of C04 over honest runs.  An      *)
(* observer of the wire recomputes (harness `predict`) from the coin-toss  *)
(* openings the seed of every shared random stream, hence                   *)
(*   - the first KOS check coefficient of every pair of parties,            *)
(*   - the bucket permutation of the first aAND batch,                      *)
(* each with the event number `known_at` from which it is determined.       *)
(* Probes report the values the code actually used.  The clause is          *)
(* violated when a prediction matches the used value EXACTLY (full 128 bit  *)
(* / at least 16 positions of a permutation of >= 20 elements) and was      *)
(* determined before the data under check went on the wire (the OT matrix  *)
(* `ALSZ_OT_setup` of that pair; the first `haand` message), and when the  *)
(* same coefficient is used by two checks.                                  *)
(***************************************************************************)
EXTENDS TraceBase, FiniteSets

VARIABLES l, run, preds, probes, datas, viol, nchk
vars == << l, run, preds, probes, datas, viol, nchk >>
Init == l = 1 /\ run = "none" /\ preds = << >> /\ probes = << >> /\ datas = << >> /\ viol = << >> /\ nchk = 0
e == Rec[l]

MinSeq(S) == IF S = {} THEN 1000000000 ELSE CHOOSE x \in S : \A y \in S : x <= y
MatrixSent(a, b) == MinSeq({ datas[k].seq : k \in { j \in 1..Len(datas) : datas[j].ph = "ALSZ_OT_setup"
                                                     /\ {datas[j].from, datas[j].to} = {a, b} } })
TriplesSent == MinSeq({ datas[k].seq : k \in { j \in 1..Len(datas) : datas[j].ph = "haand" } })
Chis == { k \in 1..Len(probes) : probes[k].name \in {"kos_chi_sender", "kos_chi_receiver"} }
Perms == { k \in 1..Len(probes) : probes[k].name = "bucket_perm" }

EarlyChi == { k \in 1..Len(preds) : preds[k].name = "kos_chi"
                /\ (\E j \in Chis : probes[j].vals[1] = preds[k].val)
                /\ preds[k].known_at < MatrixSent(preds[k].a, preds[k].b) }
EarlyPerm == { k \in 1..Len(preds) : preds[k].name = "bucket_perm" /\ preds[k].lprime >= 20 /\ Len(preds[k].vals) >= 16
                /\ (\E j \in Perms : [i \in 1..Len(probes[j].vals) |-> probes[j].vals[i][1]] = preds[k].vals)
                /\ preds[k].known_at < TriplesSent }
\* the test combinations of the first aBit call (probe abit_r: [l, l', first 128 coefficient bits, ...]) against the
\* prediction from the coin-toss openings; the data under test are the OT correlations: the earliest OT matrix
ABitRs == { k \in 1..Len(probes) : probes[k].name = "abit_r" }
FirstMatrix == MinSeq({ datas[k].seq : k \in { j \in 1..Len(datas) : datas[j].ph = "ALSZ_OT_setup" } })
EarlyABit == { k \in 1..Len(preds) : preds[k].name = "abit_r0"
                 /\ (\E j \in ABitRs : Len(probes[j].vals) >= 3 /\ probes[j].vals[3] = preds[k].val)
                 /\ preds[k].known_at < FirstMatrix }
Reused == { k \in Chis : \E j \in Chis : j < k /\ probes[j].name = probes[k].name /\ probes[j].p = probes[k].p
                                          /\ probes[j].vals = probes[k].vals }

EndViol ==
  (IF EarlyChi # {} THEN { "the first KOS check coefficient is determined by the coin-toss openings before the OT matrix is sent" } ELSE {})
  \cup (IF EarlyPerm # {} THEN { "the bucket permutation of the leaky AND triples is determined before the triples are computed and sent" } ELSE {})
  \cup (IF EarlyABit # {} THEN { "the aBit test combinations are determined by the coin-toss openings before the OT correlations under test exist" } ELSE {})
  \cup (IF Reused # {} THEN { "the same KOS check coefficient is used again by a later check (pairwise stream re-cloned per aBit call)" } ELSE {})
SetToSeq(S) == LET RECURSIVE F(_) F(T) == IF T = {} THEN << >> ELSE LET x == CHOOSE y \in T : TRUE IN << x >> \o F(T \ {x}) IN F(S)

Next ==
  /\ l <= NRec /\ l' = l + 1
  /\ run' = IF e.ev = "cfg" THEN e.run ELSE run
  /\ preds' = IF e.ev = "cfg" THEN << >> ELSE IF e.ev = "predict" THEN Append(preds, e) ELSE preds
  /\ probes' = IF e.ev = "cfg" THEN << >> ELSE IF e.ev = "probe" THEN Append(probes, e) ELSE probes
  /\ datas' = IF e.ev = "cfg" THEN << >> ELSE IF e.ev = "data" THEN Append(datas, e) ELSE datas
  /\ nchk' = IF e.ev = "end" THEN nchk + Cardinality(Chis) + Cardinality(Perms) ELSE nchk
  /\ viol' = IF e.ev = "end" /\ Len(viol) < 30
             THEN viol \o [k \in 1..Cardinality(EndViol) |-> [line |-> l, run |-> run, what |-> SetToSeq(EndViol)[k], p |-> 0]]
             ELSE viol
Spec == Init /\ [][Next]_vars
Report == (l = NRec + 1) => JsonSerialize(IOEnv.OUT, [total |-> NRec, checked |-> nchk, viol |-> viol])
=============================================================================

------------------------------ MODULE Mon_C04b ------------------------------
(***************************************************************************)
(* Property monitor for the commit-before-reveal clause of C04, over the   *)
(* posted/completed operation trace of honest runs under arbitrary         *)
(* schedules.  When a party posts its k-th send of a reveal phase to some  *)
(* peer it must already have completed the receive of the k-th commitment  *)
(* message of that family from EVERY peer.                                  *)
(*   coin tossing:  commit "RNG comm"      reveal "RNG ver"                 *)
(*   aShare:        commit "fashare comm"  reveal "fashare ver", "fashare di_bi" *)
(*   leaky AND:     commit "flaand comm"   reveal "flaand hash"             *)
(* Challenge-after-data, as far as it is an ORDER of messages: when an OT    *)
(* sender posts the k-th seed of the KOS check coefficients ("KOS_OT_seed")  *)
(* to a peer it must have completed the receive of the k-th OT-extension     *)
(* matrix ("ALSZ_OT_setup") from THAT peer -- the matrix is what the         *)
(* coefficients test.                                                        *)
(***************************************************************************)
EXTENDS TraceBase, FiniteSets

VARIABLES l, n, run, got, sent, viol, nchk
vars == << l, n, run, got, sent, viol, nchk >>

Reveal == {"RNG ver", "fashare ver", "fashare di_bi", "flaand hash"}
CommitOf(ph) == CASE ph = "RNG ver" -> "RNG comm"
                  [] ph \in {"fashare ver", "fashare di_bi"} -> "fashare comm"
                  [] ph = "flaand hash" -> "flaand comm"
Commit == {"RNG comm", "fashare comm", "flaand comm"}
Challenge == {"KOS_OT_seed"}
DataOf(ph) == CASE ph = "KOS_OT_seed" -> "ALSZ_OT_setup"
Data == {"ALSZ_OT_setup"}

Init == l = 1 /\ n = 0 /\ run = "none" /\ got = << >> /\ sent = << >> /\ viol = << >> /\ nchk = 0

r == Rec[l]
Ps == 0 .. (n - 1)

IsRevealPost == r.ev = "s" /\ r.d = "S" /\ r.ph \in Reveal
IsChallengePost == r.ev = "s" /\ r.d = "S" /\ r.ph \in Challenge
Bad ==
  IF IsChallengePost THEN
    LET k == sent[<< r.p, r.ph, r.q >>] + 1 IN
    IF got[<< r.p, DataOf(r.ph), r.q >>] < k
    THEN r.ph \o " number " \o ToString(k) \o " sent before the data it tests (" \o DataOf(r.ph) \o ") was received from that peer"
    ELSE ""
  ELSE IF IsRevealPost THEN
    LET k == sent[<< r.p, r.ph, r.q >>] + 1 IN
    IF \E o \in Ps \ {r.p} : got[<< r.p, CommitOf(r.ph), o >>] < k
    THEN r.ph \o " number " \o ToString(k) \o " revealed before all commitments of the round were received"
    ELSE ""
  ELSE ""

Next ==
  /\ l <= NRec /\ l' = l + 1
  /\ n' = IF r.ev = "cfg" THEN r.n ELSE n
  /\ run' = IF r.ev = "cfg" THEN r.run ELSE run
  /\ got' = IF r.ev = "cfg" THEN [x \in (0..(r.n - 1)) \X (Commit \cup Data) \X (0..(r.n - 1)) |-> 0]
            ELSE IF r.ev = "e" /\ r.ok /\ r.d = "R" /\ r.ph \in (Commit \cup Data)
                 THEN [got EXCEPT ![<< r.p, r.ph, r.q >>] = @ + 1]
            ELSE got
  /\ sent' = IF r.ev = "cfg" THEN [x \in (0..(r.n - 1)) \X (Reveal \cup Challenge) \X (0..(r.n - 1)) |-> 0]
             ELSE IF IsRevealPost \/ IsChallengePost THEN [sent EXCEPT ![<< r.p, r.ph, r.q >>] = @ + 1]
             ELSE sent
  /\ nchk' = IF r.ev # "cfg" /\ (IsRevealPost \/ IsChallengePost) THEN nchk + 1 ELSE nchk
  /\ viol' = IF r.ev # "cfg" /\ Bad # "" /\ Len(viol) < 5
             THEN Append(viol, [line |-> l, run |-> run, what |-> Bad, p |-> r.p])
             ELSE viol

Spec == Init /\ [][Next]_vars
Report == (l = NRec + 1) =>
  JsonSerialize(IOEnv.OUT, [total |-> NRec, checked |-> nchk, viol |-> viol])
=============================================================================

---------------------------- MODULE Wrk17Online ----------------------------
(***************************************************************************)
(* The online phase of polytune (protocol.rs: input_processing, garble,    *)
(* evaluate, output) over an IDEAL preprocessing, with the 128-bit algebra *)
(* kept symbolic: a value is a finite set of atoms, XOR is symmetric       *)
(* difference, so an equality holds here iff it holds for every valuation  *)
(* of the atoms (the usual symbolic reading of information-theoretic MACs; *)
(* the AEAD rows are ideal).  Bits are concrete.                            *)
(*   atoms  <<"D", p>>           global key of p                            *)
(*          <<"K", p, q, id>>    key p holds for q's share `id`             *)
(*          <<"L", p, w>>        garbler p's zero label made at instr. w    *)
(*          <<"G", j>>           garbage chosen by the adversary            *)
(*   share ids  <<"r", w>> random share of Input / AND instruction w,       *)
(*              <<"s", w>> AND share (sigma) of AND instruction w           *)
(* A wire's share is the XOR of a SET of base shares (free XOR / NOT).      *)
(* One party C may deviate in ONE field of one message (Dev); every check   *)
(* of the code is an equality of symbolic values and carries the error     *)
(* name the code returns.  Outcome(...)[p] is "ok" with the output bits or *)
(* the error name.                                                          *)
(***************************************************************************)
EXTENDS Naturals, Sequences, FiniteSets, Circuit, TLC

Sym(A, B) == (A \ B) \cup (B \ A)
Scale(b, A) == IF b THEN A ELSE {}
D(p) == << "D", p >>
Parity(S) == Cardinality(S) % 2 = 1

\* ---- shares ---------------------------------------------------------------
\* rb[p][id]: the share bit of party p (index p+1) for base share id
BitOf(rb, p, S) == Parity({ id \in S : rb[p + 1][id] })
KeyOf(p, q, S) == { << "K", p, q, id >> : id \in S }            \* p's key for q's share S
MacOf(rb, p, q, S) == KeyOf(q, p, S) \cup Scale(BitOf(rb, p, S), {D(q)})  \* p's MAC under q's key

\* ---- circuit bookkeeping (the same walk in init_and_shares / garble / evaluate) ----
\* share sets per register after instruction k
RECURSIVE SharesAfter(_, _, _)
SharesAfter(c, regs, k) ==
  IF k > Len(c.insts) THEN regs
  ELSE LET i == c.insts[k]
           v == CASE i.op \in {"I", "A"} -> { << "r", k >> }
                  [] i.op = "X" -> Sym(regs[i.a + 1], regs[i.b + 1])
                  [] i.op = "N" -> regs[i.a + 1] IN
       SharesAfter(c, [regs EXCEPT ![i.out + 1] = v], k + 1)
\* share sets of the two inputs of AND instruction k (as seen when k is reached)
RECURSIVE SharesBefore(_, _, _, _)
SharesBefore(c, regs, k, stop) ==
  IF k = stop THEN regs
  ELSE LET i == c.insts[k]
           v == CASE i.op \in {"I", "A"} -> { << "r", k >> }
                  [] i.op = "X" -> Sym(regs[i.a + 1], regs[i.b + 1])
                  [] i.op = "N" -> regs[i.a + 1] IN
       SharesBefore(c, [regs EXCEPT ![i.out + 1] = v], k + 1, stop)
EmptyRegs(c) == [r \in 1..c.mr |-> {}]
FinalShares(c) == SharesAfter(c, EmptyRegs(c), 1)
AndIn(c, k) == LET regs == SharesBefore(c, EmptyRegs(c), 1, k) IN << regs[c.insts[k].a + 1], regs[c.insts[k].b + 1] >>

AndInsts(c) == { k \in 1..Len(c.insts) : IsAnd(c.insts[k]) }
BaseIds(c) == { << "r", k >> : k \in { j \in 1..Len(c.insts) : c.insts[j].op \in {"I", "A"} } } \cup { << "s", k >> : k \in AndInsts(c) }

\* the four rows of AND instruction k as share sets (row 3 carries the constant)
RowSet(c, k, j) ==
  LET X == AndIn(c, k)[1]
      Y == AndIn(c, k)[2]
      R0 == { << "s", k >>, << "r", k >> } IN
  CASE j = 0 -> R0 [] j = 1 -> Sym(R0, X) [] j = 2 -> Sym(R0, Y) [] j = 3 -> Sym(Sym(R0, X), Y)

\* ---- deviations ------------------------------------------------------------
\* [kind, to (recipient), pos (register or AND instruction), how]
NoDev == [kind |-> "none", to |-> 0, pos |-> 0, how |-> ""]
Hit(dev, kind, to, pos) == dev.kind = kind /\ dev.to = to /\ dev.pos = pos
G == { << "G", 1 >> }

\* ---- the run ----------------------------------------------------------------
\* cfg = [n, pe, po, circ]; inputs[p+1] = input bits of p; rb as above; C corrupted party; dev its deviation
Run(cfg, inputs, rb, C, dev) ==
  LET n == cfg.n
      c == cfg.circ
      pe == cfg.pe
      Ps == 0 .. (n - 1)
      Garblers == Ps \ {pe}
      FS == FinalShares(c)
      InPoSet(p) == \E k \in 1..Len(cfg.po) : cfg.po[k] = p
      InputAt(k) == c.insts[k]                                   \* an Input instruction
      OwnerRegs(o) == { k \in InputInsts(c) : c.insts[k].a = o }
      \* -- input processing: mask shares to the owner, MAC check, masked inputs --------
      WsBit(p, o, k) == LET b == BitOf(rb, p, { << "r", k >> }) IN
                        IF p = C /\ Hit(dev, "ws_bit", o, k) THEN ~b ELSE b
      WsMac(p, o, k) == LET m == MacOf(rb, p, o, { << "r", k >> }) IN
                        IF p = C /\ Hit(dev, "ws_mac", o, k) THEN Sym(m, G) ELSE m
      \* (cfg.weak names a check that is LEFT OUT: negative controls of the model checking, never the real tree)
      InputMacOk(o) == cfg.weak = "no_input_mac" \/ \A k \in OwnerRegs(o) : \A p \in Ps \ {o} :
                          WsMac(p, o, k) = KeyOf(o, p, { << "r", k >> }) \cup Scale(WsBit(p, o, k), {D(o)})
      \* masked input of instruction k as computed by its owner (with the bits it received)
      OwnMasked(k) == LET o == InputAt(k).a IN
                      Parity({ p \in Ps \ {o} : WsBit(p, o, k) })
                        # (inputs[o + 1][InputAt(k).b + 1] # BitOf(rb, o, { << "r", k >> }))
      \* what party q is told (equivocation: a different bit to one recipient)
      ToldMasked(k, q) == LET o == InputAt(k).a IN
                          IF o = C /\ Hit(dev, "mi_equiv", q, k) THEN ~OwnMasked(k) ELSE OwnMasked(k)
      \* verified broadcast (n >= 3): the recipients compare what they were told
      BroadcastOk(q) == \A k \in InputInsts(c) : LET o == InputAt(k).a IN
                          (o # q) => \A q2 \in Ps \ {o, q} : ToldMasked(k, q2) = ToldMasked(k, q)
      Masked(k, q) == IF InputAt(k).a = q THEN OwnMasked(k) ELSE ToldMasked(k, q)
      \* -- labels -----------------------------------------------------------------------
      \* zero label of garbler i per register after the whole walk is not needed: labels are followed along evaluation
      InLabel(i, k) == LET l == { << "L", i, k >> } \cup Scale(Masked(k, i), {D(i)}) IN
                       IF i = C /\ Hit(dev, "label", pe, k)
                       THEN (IF dev.how = "other" THEN Sym(l, {D(i)}) ELSE Sym(l, G)) ELSE l
      \* -- evaluation (evaluator's view): value, labels per garbler, zero labels per garbler, status ----
      RowBit(p, k, j) == LET b == BitOf(rb, p, RowSet(c, k, j)) IN
                         IF p = C /\ p # pe /\ Hit(dev, "row_share", pe, k) THEN ~b ELSE b
      RECURSIVE Eval(_, _)
      \* st = [v (masked value per reg), lab (per reg: garbler -> label), z (per reg: garbler -> zero label), err]
      Eval(st, k) ==
        IF k > Len(c.insts) \/ st.err # "" THEN st
        ELSE
        LET i == c.insts[k] IN
        CASE i.op = "I" ->
               Eval([st EXCEPT !.v[i.out + 1] = Masked(k, pe),
                               !.lab[i.out + 1] = [g \in Garblers |-> InLabel(g, k)],
                               !.z[i.out + 1] = [g \in Garblers |-> { << "L", g, k >> }]], k + 1)
          [] i.op = "X" ->
               Eval([st EXCEPT !.v[i.out + 1] = (st.v[i.a + 1] # st.v[i.b + 1]),
                               !.lab[i.out + 1] = [g \in Garblers |-> Sym(st.lab[i.a + 1][g], st.lab[i.b + 1][g])],
                               !.z[i.out + 1] = [g \in Garblers |-> Sym(st.z[i.a + 1][g], st.z[i.b + 1][g])]], k + 1)
          [] i.op = "N" ->
               Eval([st EXCEPT !.v[i.out + 1] = ~st.v[i.a + 1],
                               !.lab[i.out + 1] = st.lab[i.a + 1],
                               !.z[i.out + 1] = [g \in Garblers |-> Sym(st.z[i.a + 1][g], {D(g)})]], k + 1)
          [] i.op = "A" ->
               LET vx == st.v[i.a + 1]
                   vy == st.v[i.b + 1]
                   j == (IF vx THEN 2 ELSE 0) + (IF vy THEN 1 ELSE 0)
                   R == RowSet(c, k, j)
                   \* garbler g encrypted row j under its labels for (vx, vy): the evaluator's labels must be those
                   KeyMatches(g) == /\ st.lab[i.a + 1][g] = Sym(st.z[i.a + 1][g], Scale(vx, {D(g)}))
                                    /\ st.lab[i.b + 1][g] = Sym(st.z[i.b + 1][g], Scale(vy, {D(g)}))
                   Intact(g) == ~(g = C /\ Hit(dev, "row_ct", pe, k))
                   MacForEval(g) == KeyOf(pe, g, R) \cup Scale(BitOf(rb, g, R), {D(pe)})  \* computed from the TRUE share
                   MacCheck(g) == cfg.weak = "no_row_mac" \/ MacForEval(g) = KeyOf(pe, g, R) \cup Scale(RowBit(g, k, j), {D(pe)})
                   vout == (Parity({ p \in Ps : (IF p = pe THEN BitOf(rb, p, R) ELSE RowBit(p, k, j)) }) # (j = 3))
                   \* label share of garbler g and recombination with the MACs for g inside the other rows
                   LabShare(g) == Sym(Sym({ << "L", g, k >> }, UNION { KeyOf(g, q, R) : q \in Ps \ {g} }),
                                      Sym(Scale(j = 3, {D(g)}), Scale(RowBit(g, k, j), {D(g)})))
                   MacsFor(g) == LET RECURSIVE X(_) X(T) == IF T = {} THEN {} ELSE LET q == CHOOSE y \in T : TRUE IN
                                                                  Sym(MacOf(rb, q, g, R), X(T \ {q})) IN X(Ps \ {g})
                   newlab == [g \in Garblers |-> Sym(LabShare(g), MacsFor(g))] IN
               IF \E g \in Garblers : ~KeyMatches(g) \/ ~Intact(g)
                 THEN [st EXCEPT !.err = "GarblingError.DecryptionFailed"]
               ELSE IF \E g \in Garblers : ~MacCheck(g)
                 THEN [st EXCEPT !.err = "MpcError.InvalidInputMacForInst"]
               ELSE Eval([st EXCEPT !.v[i.out + 1] = vout, !.lab[i.out + 1] = newlab,
                                    !.z[i.out + 1] = [g \in Garblers |-> { << "L", g, k >> }]], k + 1)
      st0 == [v |-> [r \in 1..c.mr |-> FALSE], lab |-> [r \in 1..c.mr |-> [g \in Garblers |-> {}]],
              z |-> [r \in 1..c.mr |-> [g \in Garblers |-> {}]], err |-> ""]
      E == Eval(st0, 1)
      \* -- output --------------------------------------------------------------------------
      OutRegs == UniqueOutRegs(c)
      OwsBit(p, q, r) == LET b == BitOf(rb, p, FS[r + 1]) IN IF p = C /\ Hit(dev, "ows_bit", q, r) THEN ~b ELSE b
      OwsMac(p, q, r) == LET m == MacOf(rb, p, q, FS[r + 1]) IN IF p = C /\ Hit(dev, "ows_mac", q, r) THEN Sym(m, G) ELSE m
      LamVal(q, r) == IF pe = C /\ Hit(dev, "lam_val", q, r) THEN ~E.v[r + 1] ELSE E.v[r + 1]
      LamLab(q, r) == IF pe = C /\ Hit(dev, "lam_lab", q, r) THEN Sym(E.lab[r + 1][q], G) ELSE E.lab[r + 1][q]
      \* zero label of garbler q for an output register: it followed the same walk
      ZeroLab(q, r) == E.z[r + 1][q]
      PreErr(p) ==
        \* errors that stop a party before the output phase
        IF ~InputMacOk(p) THEN "MpcError.InvalidInputMacForInst"
        ELSE IF n >= 3 /\ ~BroadcastOk(p) THEN "PreprocessingError.InconsistentBroadcast"
        ELSE IF p = pe /\ E.err # "" THEN E.err
        ELSE ""
      Result(p) ==
        IF PreErr(p) # "" THEN [kind |-> "err", err |-> PreErr(p), out |-> << >>]
        \* a party whose peer stopped earlier loses the channel
        ELSE IF \E q \in Ps \ {p} : PreErr(q) # "" THEN [kind |-> "err", err |-> "channel", out |-> << >>]
        ELSE IF ~InPoSet(p) THEN [kind |-> "ok", err |-> "", out |-> << >>]
        ELSE IF cfg.weak # "no_output_label" /\ p # pe /\ \E r \in OutRegs : LamLab(p, r) # Sym(ZeroLab(p, r), Scale(LamVal(p, r), {D(p)}))
          THEN [kind |-> "err", err |-> "MpcError.InvalidOutputLabel", out |-> << >>]
        ELSE IF cfg.weak # "no_output_mac" /\ \E r \in OutRegs : \E q \in Ps \ {p} :
                  OwsMac(q, p, r) # KeyOf(p, q, FS[r + 1]) \cup Scale(OwsBit(q, p, r), {D(p)})
          THEN [kind |-> "err", err |-> "MpcError.InvalidOutputMac", out |-> << >>]
        ELSE [kind |-> "ok", err |-> "",
              out |-> [j \in 1..Len(c.or) |->
                         LET r == c.or[j]
                             base == IF p = pe THEN E.v[r + 1] ELSE LamVal(p, r) IN
                         (Parity({ q \in Ps \ {p} : OwsBit(q, p, r) }) # (base # BitOf(rb, p, FS[r + 1])))]]
  IN [p \in Ps |-> Result(p)]

-----------------------------------------------------------------------------
\* AND-share bits consistent with the ideal functionality: XOR of sigma = (XOR of x shares) AND (XOR of y shares)
SigmaOk(cfg, rb) ==
  \A k \in AndInsts(cfg.circ) :
    LET X == AndIn(cfg.circ, k)[1]
        Y == AndIn(cfg.circ, k)[2]
        Tot(S) == Parity({ p \in 0..(cfg.n - 1) : BitOf(rb, p, S) }) IN
    Tot({ << "s", k >> }) = (Tot(X) /\ Tot(Y))
=============================================================================

------------------------------- MODULE MC_Adv -------------------------------
(* Prints every scenario of Adversary.tla for the configuration in CFG.    *)
EXTENDS Adversary, IOUtils
CFG == JsonDeserialize(IOEnv.CFG)
Cfg == [n |-> CFG.n, pe |-> CFG.pe, po |-> CFG.po, circ |-> CFG.circ]
All == Scenarios(Cfg, CFG.c, CFG.fam)
VARIABLE s
Init == s \in All
Next == UNCHANGED s
Spec == Init /\ [][Next]_s
Export == PrintT("REPLAY " \o ToJson(s))
=============================================================================

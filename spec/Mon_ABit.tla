------------------------------- MODULE Mon_ABit -------------------------------
(***************************************************************************)
(* Property monitor (C06, clause "a share that the party never discloses") *)
(* over the aBit consistency tests of real honest runs.  One event per      *)
(* fabitn call of a run:                                                    *)
(*   [ev = "abit", run, call, l, lp,                                        *)
(*    rows  = the public coefficient vectors (probe; the same at every      *)
(*            party), each a sequence of positions 1..lp,                   *)
(*    parties = per party [p, ones, xt]:                                    *)
(*      ones  = positions of the party's own bits that are 1 (probe, oracle)*)
(*      xt    = the test bits it broadcast (decoded "fabitn" message)]      *)
(* Positions 1..l are returned to the caller, l+1..lp are discarded.        *)
(*  Definition  xt[t] is the parity of the own bits at rows[t] (binds        *)
(*              ABit.tla's Out to the code; a mismatch is reported as        *)
(*              `drift`, not as a violation)                                 *)
(*  Masked      no XOR of coefficient vectors avoids every discarded        *)
(*              position while touching a returned one (ABit.tla:            *)
(*              DisclosureIsExact).  Gaussian elimination with pivots        *)
(*              restricted to the discarded positions; a vector that         *)
(*              reduces to returned positions only is such a combination:    *)
(*              its tags name the tests, its positions the disclosed         *)
(*              parity, and the monitor confirms on the recorded values      *)
(*              that the XOR of the broadcast bits equals that parity.       *)
(***************************************************************************)
EXTENDS TraceBase, FiniteSets

VARIABLES l, viol, drift, nchk, nleak, hist
vars == << l, viol, drift, nchk, nleak, hist >>
Init == l = 1 /\ viol = << >> /\ drift = << >> /\ nchk = 0 /\ nleak = 0 /\ hist = << >>
e == Rec[l]

Sym(A, B) == (A \ B) \cup (B \ A)
Par(S) == Cardinality(S) % 2 = 1
ToSet(s) == { s[k] : k \in 1..Len(s) }
TAG == 100000      \* test t is carried as the pseudo-position TAG + t

RECURSIVE ReduceD(_, _)
ReduceD(v, B) == LET hits == { b \in B : b[1] \in v } IN
                 IF hits = {} THEN v ELSE ReduceD(Sym(v, (CHOOSE b \in hits : TRUE)[2]), B)
\* st = [B |-> reduced basis (pivot in the discarded positions), K |-> kernel vectors found]
AddRow(st, v, disc) ==
  LET w == ReduceD(v, st.B)
      d == w \cap disc IN
  IF d = {} THEN [st EXCEPT !.K = @ \cup {w}]
  ELSE LET p == CHOOSE x \in d : \A y \in d : x <= y IN
       [st EXCEPT !.B = { IF p \in b[2] THEN << b[1], Sym(b[2], w) >> ELSE b : b \in st.B } \cup { << p, w >> }]
RECURSIVE Elim(_, _, _, _)
Elim(r, t, st, disc) == IF t > Len(r.rows) THEN st
                        ELSE Elim(r, t + 1, AddRow(st, ToSet(r.rows[t]) \cup {TAG + t}, disc), disc)

Kernel(r) == Elim(r, 1, [B |-> {}, K |-> {}], (r.l + 1) .. r.lp).K
Tests(w) == { x - TAG : x \in { y \in w : y > TAG } }
Returned(w) == { x \in w : x <= TAG }
\* combinations that disclose a parity of returned bits
Leaks(r) == { w \in Kernel(r) : Returned(w) # {} }

DefOk(r) == \A k \in 1..Len(r.parties) :
              LET ones == ToSet(r.parties[k].ones) IN
              \A t \in 1..Len(r.rows) : (r.parties[k].xt[t] = 1) = Par(ToSet(r.rows[t]) \cap ones)
\* the disclosed parity is what the XOR of the broadcast bits says, for every party
Confirmed(r, w) == \A k \in 1..Len(r.parties) :
                     Par({ t \in Tests(w) : r.parties[k].xt[t] = 1 }) = Par(Returned(w) \cap ToSet(r.parties[k].ones))

\* ---- the masking bits must be random: history of the own bit vectors (events "abitx": [l, lp, ones]) --------------
\* hist[<<l, lp>>] = [n |-> samples, cnt |-> position -> number of samples with a 1 there]
AddSample(h, r) ==
  LET k == << r.l, r.lp >>
      on == ToSet(r.ones)
      old == IF k \in DOMAIN h THEN h[k] ELSE [n |-> 0, cnt |-> [p \in 1..r.lp |-> 0]] IN
  (k :> [n |-> old.n + 1, cnt |-> [p \in 1..r.lp |-> old.cnt[p] + (IF p \in on THEN 1 ELSE 0)]]) @@ h
MinSamples == 40
\* positions that held the same value in every one of at least MinSamples fresh bit vectors (chance 2^-39 each)
Constant(h) == { << k, p >> \in UNION { { << kk, pp >> : pp \in 1..kk[2] } : kk \in DOMAIN h } :
                   h[k].n >= MinSamples /\ (h[k].cnt[p] = 0 \/ h[k].cnt[p] = h[k].n) }
HistViol(h) ==
  LET c == Constant(h) IN
  IF c = {} THEN << >>
  ELSE LET x == CHOOSE y \in c : \A z \in c : y[2] >= z[2] IN
       << [run |-> "history", p |-> 0, call |-> 0, ntests |-> 0, tests |-> {}, positions |-> { y[2] : y \in { z \in c : z[1] = x[1] } },
           l |-> x[1][1], lp |-> x[1][2], confirmed |-> TRUE, combos |-> Cardinality(c),
           constant |-> TRUE, samples |-> h[x[1]].n] >>

\* (the "abitx" samples follow the "abit" events in the file: the history is judged on the last record)
Next ==
  /\ l <= NRec /\ l' = l + 1
  /\ hist' = IF e.ev = "abitx" THEN AddSample(hist, e) ELSE hist
  /\ IF e.ev # "abit" THEN /\ UNCHANGED << drift, nchk, nleak >>
                           /\ viol' = IF l = NRec /\ e.ev = "abitx" /\ Len(viol) < 10 THEN viol \o HistViol(AddSample(hist, e)) ELSE viol
     ELSE LET lk == Leaks(e) IN
          /\ nchk' = nchk + 1
          /\ nleak' = nleak + (IF lk # {} THEN 1 ELSE 0)
          /\ drift' = IF ~DefOk(e) /\ Len(drift) < 5
                      THEN Append(drift, [run |-> e.run, call |-> e.call,
                                          what |-> "a broadcast test bit is not the parity of the own bits at the coefficient positions"])
                      ELSE drift
          /\ viol' = IF lk # {} /\ Len(viol) < 10
                     THEN LET w == CHOOSE x \in lk : \A y \in lk : Cardinality(Tests(x)) <= Cardinality(Tests(y)) IN
                          Append(viol, [run |-> e.run, p |-> 0, call |-> e.call, ntests |-> Cardinality(Tests(w)),
                                        tests |-> Tests(w), positions |-> Returned(w), l |-> e.l, lp |-> e.lp,
                                        confirmed |-> Confirmed(e, w), combos |-> Cardinality(lk),
                                        constant |-> FALSE, samples |-> 0])
                     ELSE viol
Spec == Init /\ [][Next]_vars
Report == (l = NRec + 1) => JsonSerialize(IOEnv.OUT, [total |-> NRec, checked |-> nchk, leaking |-> nleak, viol |-> viol, drift |-> drift,
                                                   classes |-> Cardinality(DOMAIN hist)])
=============================================================================

-------------------------------- MODULE AShare --------------------------------
(***************************************************************************)
(* One sacrificed object of the aShare consistency round (faand.rs,        *)
(* fashare step 3) for N parties, symbolic values (Gf2), one corrupted     *)
(* party C.  Party p holds a bit b[p], for every peer q the key K(p,q) for *)
(* q's bit and the MAC  M(p,q) = K(q,p) XOR b[p]*D(q).                     *)
(*   commit:   d0_p = XOR_q K(p,q),  d1_p = d0_p XOR D(p),                  *)
(*             dm_p = (b[p], M(p,q) for all q)   (ideal commitments)         *)
(*   reveal:   dm_p                                                          *)
(*   open:     d_beta with beta = XOR of the bits CLAIMED by the others      *)
(*   check:    the value opened by k equals XOR_{j # k} (MAC for k in dm_j)  *)
(* PINNED: the claims are used as they come.  FIXED: a party first opens    *)
(* each dm against its commitment and checks the claimed (bit, MAC for me)  *)
(* against its own key.                                                      *)
(* The corrupted party may claim a flipped bit, alter the MAC it shows to   *)
(* one victim, or reveal a dm different from the committed one.             *)
(*   CheatDetected  a deviation makes every honest party that receives the  *)
(*                  bad value return Err                                     *)
(*   KeySecrecy     the global key of an honest party is not in the GF(2)   *)
(*                  span of everything the corrupted party holds and sees    *)
(***************************************************************************)
EXTENDS Naturals, FiniteSets, Gf2, TLC

CONSTANTS N, C, FIXED
Ps == 0 .. (N - 1)
Honest == Ps \ {C}
D(p) == << "D", p >>
K(p, q) == << "K", p, q >>        \* p's key for q's bit
Scale(b, A) == IF b THEN A ELSE {}
Mac(b, p, q) == Sym({K(q, p)}, Scale(b[p], {D(q)}))   \* p's MAC under q's key

Devs == { [kind |-> "none", v |-> 0] }
        \cup { [kind |-> k, v |-> h] : k \in {"flipbit", "badmac", "otherdm"}, h \in Honest }

VARIABLES b, dev, res, view
vars == << b, dev, res, view >>

\* what party C claims towards h: (bit, MAC for h)
ClaimBit(h) == IF dev.kind = "flipbit" /\ (dev.v = h \/ TRUE) THEN ~b[C] ELSE b[C]
ClaimMac(h) == IF dev.kind = "badmac" /\ dev.v = h THEN Sym(Mac(b, C, h), {<< "G", 1 >>}) ELSE Mac(b, C, h)
CommitMatches(h) == dev.kind # "otherdm"     \* the revealed dm is the committed one
\* claims of honest parties are true
BitSeenBy(h, k) == IF k = C THEN ClaimBit(h) ELSE b[k]
MacSeenBy(h, k) == IF k = C THEN ClaimMac(h) ELSE Mac(b, k, h)

d0(p) == UNION { {K(p, q)} : q \in Ps \ {p} }
Beta(h) == Cardinality({ k \in Ps \ {h} : BitSeenBy(h, k) }) % 2 = 1
Opened(h) == Sym(d0(h), Scale(Beta(h), {D(h)}))

\* the repaired pre-check of an honest party
PreCheck(h) == /\ CommitMatches(h)
               /\ \A k \in Ps \ {h} : MacSeenBy(h, k) = Sym({K(h, k)}, Scale(BitSeenBy(h, k), {D(h)}))
\* the original check: what C opens must equal the XOR of the MACs for C that the others revealed (C runs
\* honest code here: it opens its true d_beta, so this check only ever fails for honest inconsistencies)
Outcome(h) == IF FIXED /\ ~PreCheck(h) THEN "err" ELSE "ok"

\* everything the corrupted party holds or is sent: its own keys, MACs and global key, the revealed MACs of the
\* others, and the d values the honest parties open (only if they got that far)
View ==
  { {D(C)} } \cup { {K(C, q)} : q \in Ps \ {C} } \cup { Mac(b, C, q) : q \in Ps \ {C} }
  \cup UNION { { Mac(b, h, q) : q \in Ps \ {h} } : h \in Honest }
  \cup { Opened(h) : h \in { x \in Honest : Outcome(x) = "ok" } }

Init == /\ b \in [Ps -> BOOLEAN]
        /\ dev \in Devs
        /\ res = [h \in Honest |-> Outcome(h)]
        /\ view = View
Next == UNCHANGED vars
Spec == Init /\ [][Next]_vars

HonestRunOk == dev.kind = "none" => \A h \in Honest : res[h] = "ok"
\* every honest party that receives the bad value (flipped bit / other dm: everybody; bad MAC: the addressee)
Victims == IF dev.kind = "badmac" THEN {dev.v} ELSE IF dev.kind = "none" THEN {} ELSE Honest
CheatDetected == \A h \in Victims : res[h] = "err"
KeySecrecy == \A h \in Honest : ~InSpan({D(h)}, view)
=============================================================================

------------------------------- MODULE Broadcast -------------------------------
(***************************************************************************)
(* Broadcast with abort (faand.rs: unverified_broadcast / scatter followed *)
(* by broadcast_verification, after Goldwasser-Lindell) for N parties, one *)
(* of them (C) corrupted, over per-pair FIFO channels.  Round 1: every     *)
(* party sends its value to every other party.  Round 2 (only for N > 2):  *)
(* party i sends to k the hashes of what it received from every j other   *)
(* than i and k; on receipt, i compares what k reports about j with the    *)
(* hash of what i itself received from j.  The corrupted party may send a  *)
(* different value to every recipient in round 1 and arbitrary reports     *)
(* (or absent ones) in round 2.  Hashes are modelled as the values          *)
(* themselves (collision freedom).                                          *)
(*   EquivocationCaught   if two honest parties hold different round-1      *)
(*                        values of the corrupted party, no honest party    *)
(*                        finishes with Ok (N >= 3)                         *)
(*   Agreement            honest parties that finish with Ok hold the same  *)
(*                        vector of round-1 values                          *)
(*   NoFalseAbort         without any deviation everybody finishes with Ok  *)
(*   Termination          every honest party finishes (the corrupted party  *)
(*                        sends all its messages; a vanishing party is the  *)
(*                        subject of C08)                                   *)
(***************************************************************************)
EXTENDS Naturals, FiniteSets, Sequences, TLC

CONSTANTS N, C, Values, HONESTRUN, WEAK
Ps == 0 .. (N - 1)
Others(p) == Ps \ {p}
Honest == Ps \ {C}
None == 99

VARIABLES pc,      \* per party: "r1" (round-1 sends pending) -> "w1" -> "r2" -> "w2" -> "ok" / "err"
          val,     \* own value of each party
          got,     \* got[i][j]: round-1 value i received from j (None if not yet)
          chan,    \* chan[<<p, q>>]: FIFO queue p -> q
          sent     \* number of messages p has sent in its current round (index into the recipient order)
vars == << pc, val, got, chan, sent >>

Order(p) == CHOOSE s \in [1 .. (N - 1) -> Others(p)] : \A a, b \in 1 .. (N - 1) : a < b => s[a] < s[b]
Thirds(i, k) == Ps \ {i, k}

Init ==
  /\ val \in [Ps -> Values]
  /\ pc = [p \in Ps |-> "r1"]
  /\ got = [i \in Ps |-> [j \in Ps |-> None]]
  /\ chan = [pq \in Ps \X Ps |-> << >>]
  /\ sent = [p \in Ps |-> 0]

\* round 1: the next value goes to the next recipient (the corrupted party picks any value)
Send1(p) ==
  /\ pc[p] = "r1"
  /\ LET q == Order(p)[sent[p] + 1] IN
     \E v \in (IF p = C /\ ~HONESTRUN THEN Values ELSE {val[p]}) :
       chan' = [chan EXCEPT ![<< p, q >>] = Append(@, [r |-> 1, v |-> v])]
  /\ sent' = [sent EXCEPT ![p] = IF @ + 1 = N - 1 THEN 0 ELSE @ + 1]
  /\ pc' = [pc EXCEPT ![p] = IF sent[p] + 1 = N - 1 THEN "w1" ELSE "r1"]
  /\ UNCHANGED << val, got >>

\* receive the round-1 value of the next peer (in index order, as try_join_all delivers them by peer)
Recv1(i) ==
  /\ pc[i] = "w1"
  /\ \E j \in Others(i) :
       /\ got[i][j] = None
       /\ chan[<< j, i >>] # << >> /\ Head(chan[<< j, i >>]).r = 1
       /\ got' = [got EXCEPT ![i][j] = Head(chan[<< j, i >>]).v]
       /\ chan' = [chan EXCEPT ![<< j, i >>] = Tail(@)]
       /\ pc' = [pc EXCEPT ![i] = IF \A k \in Others(i) \ {j} : got[i][k] # None
                                  THEN (IF N = 2 THEN "ok" ELSE "r2") ELSE "w1"]
  /\ UNCHANGED << val, sent >>

\* round 2: report to k what was received from every third party (the corrupted party reports anything, or leaves a
\* report out)
Reports(i, k) == IF i = C /\ ~HONESTRUN THEN [Thirds(i, k) -> Values \cup {None}] ELSE { [j \in Thirds(i, k) |-> got[i][j]] }
Send2(p) ==
  /\ pc[p] = "r2"
  /\ LET q == Order(p)[sent[p] + 1] IN
     \E rep \in Reports(p, q) : chan' = [chan EXCEPT ![<< p, q >>] = Append(@, [r |-> 2, v |-> rep])]
  /\ sent' = [sent EXCEPT ![p] = IF @ + 1 = N - 1 THEN 0 ELSE @ + 1]
  /\ pc' = [pc EXCEPT ![p] = IF sent[p] + 1 = N - 1 THEN "w2" ELSE "r2"]
  /\ UNCHANGED << val, got >>

\* all reports are in: compare
Ready2(i) == \A k \in Others(i) : chan[<< k, i >>] # << >> /\ Head(chan[<< k, i >>]).r = 2
Verdict(i) ==
  IF \E k \in Others(i) : \E j \in Thirds(i, k) : Head(chan[<< k, i >>]).v[j] = None THEN "err"
  ELSE IF WEAK # "no_compare" /\ \E k \in Others(i) : \E j \in Thirds(i, k) : Head(chan[<< k, i >>]).v[j] # got[i][j] THEN "err"
  ELSE "ok"
Check(i) ==
  /\ pc[i] = "w2" /\ Ready2(i)
  /\ pc' = [pc EXCEPT ![i] = Verdict(i)]
  /\ chan' = [pq \in Ps \X Ps |-> IF pq[2] = i /\ pq[1] # i THEN Tail(chan[pq]) ELSE chan[pq]]
  /\ UNCHANGED << val, got, sent >>

Next == \E p \in Ps : Send1(p) \/ Recv1(p) \/ Send2(p) \/ Check(p)
Spec == Init /\ [][Next]_vars /\ WF_vars(Next)

Done(p) == pc[p] \in {"ok", "err"}
AllDone == \A p \in Honest : Done(p)
Equivocated == \E a, b \in Honest : got[a][C] # None /\ got[b][C] # None /\ got[a][C] # got[b][C]
EquivocationCaught == (N >= 3 /\ AllDone /\ Equivocated) => \A p \in Honest : pc[p] = "err"
Agreement == \A a, b \in Honest : (pc[a] = "ok" /\ pc[b] = "ok") => \A j \in Ps \ {a, b} : got[a][j] = got[b][j]
NoFalseAbort == HONESTRUN => \A p \in Ps : pc[p] # "err"
\* an honest party holds, for every honest peer, that peer's true value
HonestValues == \A a, b \in Honest : a # b /\ got[a][b] # None => got[a][b] = val[b]
TypeOK == \A pq \in Ps \X Ps : Len(chan[pq]) <= 2
Termination == <>AllDone
=============================================================================

------------------------------- MODULE Wrk17Pre -------------------------------
(***************************************************************************)
(* Symbolic model of the AND-triple preprocessing of faand.rs for N        *)
(* parties with one corrupted party C: leaky AND (fhaand + flaand), the    *)
(* combination of two leaky triples of one bucket (check_dvalue +          *)
(* combine_two_leaky_ands) and Beaver derandomisation (beaver_aand).       *)
(* 128-bit values are GF(2) vectors over atoms (Gf2.tla): global keys      *)
(* <<"D",p>>, keys <<"K",p,q,s>> (p's key for q's bit named s), hash       *)
(* outputs <<"H",X>>, garbage <<"G",k>>; share bits are concrete and       *)
(* enumerated.  Single hash bits (HaAND) are bit expressions [c, h]: a     *)
(* concrete bit XOR the least significant hash bits of the values in h.     *)
(*                                                                         *)
(* MODE = "laand":   one leaky triple from valid random shares x, y, r     *)
(* MODE = "beaver":  two valid leaky triples -> one triple -> AND share    *)
(*                   of given shares alpha, beta                           *)
(***************************************************************************)
EXTENDS Naturals, FiniteSets, Sequences, Gf2, TLC, Json

CONSTANTS N, C, MODE, SENUM, WEAK, RESTRICT
Ps == 0 .. (N - 1)
Others(p) == Ps \ {p}
Honest == Ps \ {C}
D(p) == << "D", p >>
K(p, q, s) == << "K", p, q, s >>
G(k) == << "G", k >>
H(X) == { << "H", X >> }
Scale(b, A) == IF b THEN A ELSE {}

RECURSIVE VFold(_, _)          \* XOR of F[q] over q \in S (F a function)
VFold(F, S) == IF S = {} THEN {} ELSE LET q == CHOOSE x \in S : TRUE IN Sym(F[q], VFold(F, S \ {q}))
RECURSIVE BoolFold(_, _)
BoolFold(F, S) == IF S = {} THEN FALSE ELSE LET q == CHOOSE x \in S : TRUE IN F[q] # BoolFold(F, S \ {q})

\* bit expressions
BX(c, h) == [c |-> c, h |-> h]
BXor(a, b) == [c |-> a.c # b.c, h |-> Sym(a.h, b.h)]
RECURSIVE BFold(_, _)
BFold(F, S) == IF S = {} THEN BX(FALSE, {}) ELSE LET q == CHOOSE x \in S : TRUE IN BXor(F[q], BFold(F, S \ {q}))

\* authenticated shares: bit, MAC under q's key, own key for q's bit
Base(p, s, b) == [bit |-> b,
                  mac |-> [q \in Ps |-> IF q = p THEN {} ELSE Sym({K(q, p, s)}, Scale(b, {D(q)}))],
                  key |-> [q \in Ps |-> IF q = p THEN {} ELSE {K(p, q, s)}]]
XorS(a, b) == [bit |-> a.bit # b.bit, mac |-> [q \in Ps |-> Sym(a.mac[q], b.mac[q])], key |-> [q \in Ps |-> Sym(a.key[q], b.key[q])]]
ZeroS == [bit |-> FALSE, mac |-> [q \in Ps |-> {}], key |-> [q \in Ps |-> {}]]
ScaleS(c, a) == IF c THEN a ELSE ZeroS
\* sh: a function party -> share.  Valid: every MAC matches the key holder's key and the bit
Valid(sh) == \A p \in Ps : \A q \in Others(p) : sh[p].mac[q] = Sym(sh[q].key[p], Scale(sh[p].bit, {D(q)}))
\* ... as far as the honest parties are concerned (their MACs under honest keys, and the corrupted party's MACs under
\* honest keys for the bit the corrupted party holds)
ValidH(sh) == \A p \in Ps : \A q \in Honest \ {p} : sh[p].mac[q] = Sym(sh[q].key[p], Scale(sh[p].bit, {D(q)}))
BitOf(sh) == BoolFold([p \in Ps |-> sh[p].bit], Ps)

Names == IF MODE = "laand" THEN {"x", "y", "r"} ELSE {"x1", "y1", "z1", "x2", "y2", "z2", "al", "be"}
LaKinds == {"none", "h0", "h1", "h01", "e", "uG", "uD", "hash", "hashcommit"}
BeKinds == {"none", "dbit", "dmac", "dboth", "bd", "be", "bdmac", "bemac", "bdboth"}
Devs == { [kind |-> k, v |-> h] : k \in (IF MODE = "laand" THEN LaKinds ELSE BeKinds) \ {"none"}, h \in Honest }
        \cup { [kind |-> "none", v |-> C] }

VARIABLES bits, sb, dev, res, out, view
vars == << bits, sb, dev, res, out, view >>

Sh(s) == [p \in Ps |-> Base(p, s, bits[s][p])]
Is(k, i, j) == dev.kind = k /\ i = C /\ j = dev.v       \* deviation k applies to the message i -> j

\* ----------------------------------------------------------------------------------------------------------------
\* leaky AND
LaAND ==
  LET X == Sh("x")  Y == Sh("y")  R == Sh("r")
      h0(i, j) == BX(sb[i][j] # (Is("h0", i, j) \/ Is("h01", i, j)), {X[i].key[j]})
      h1(i, j) == BX((sb[i][j] # Y[i].bit) # (Is("h1", i, j) \/ Is("h01", i, j)), {Sym(X[i].key[j], {D(i)})})
      t(i, j) == BXor(BX(FALSE, {X[i].mac[j]}), IF X[i].bit THEN h1(j, i) ELSE h0(j, i))    \* i receives from j
      v == [i \in Ps |-> BFold([j \in Others(i) |-> BXor(BX(sb[i][j], {}), t(i, j))], Others(i))]
      z == [i \in Ps |-> v[i].c # (X[i].bit /\ Y[i].bit)]
      e == [i \in Ps |-> z[i] # R[i].bit]
      eSeen(j, i) == e[i] # (dev.kind = "e" /\ i = C)          \* broadcast: the same lie to everybody
      Z == [i \in Ps |-> [bit |-> z[i], mac |-> R[i].mac,
                          key |-> [j \in Ps |-> IF j = i THEN {} ELSE Sym(R[i].key[j], Scale(eSeen(i, j), {D(i)}))]]]
      phi == [i \in Ps |-> Sym(VFold([k \in Others(i) |-> Sym(Y[i].key[k], Y[i].mac[k])], Others(i)), Scale(Y[i].bit, {D(i)}))]
      U(i, j) == Sym(Sym(Sym(H(X[i].key[j]), H(Sym(X[i].key[j], {D(i)}))), phi[i]),
                     IF Is("uG", i, j) THEN {G(1)} ELSE IF Is("uD", i, j) THEN {D(C)} ELSE {})
      kphi(i, j) == Sym(Sym(H(X[i].key[j]), H(X[i].mac[j])), Scale(X[i].bit, U(j, i)))
      Hv == [i \in Ps |-> Sym(Sym(VFold([k \in Others(i) |-> Sym(Sym(Z[i].mac[k], Z[i].key[k]), kphi(i, k))], Others(i)),
                                  Scale(X[i].bit, phi[i])), Scale(z[i], {D(i)}))]
      Hs == [i \in Ps |-> Sym(Hv[i], IF dev.kind = "hash" /\ i = C THEN {G(2)} ELSE {})]
      sum == VFold(Hs, Ps)
      outcome == IF dev.kind = "hashcommit" THEN "CommitmentCouldNotBeOpened"
                 ELSE IF sum # {} /\ WEAK # "no_xor_check" THEN "LaANDXorNotZero" ELSE "ok"
      \* what the corrupted party holds and receives
      own == { {D(C)} } \cup UNION { { {K(C, q, s)} : q \in Others(C) } : s \in Names }
             \cup UNION { { Sh(s)[C].mac[q] : q \in Others(C) } : s \in Names }
      got == { U(j, C) : j \in Honest } \cup { Hs[j] : j \in Honest }
  IN [res |-> [p \in Honest |-> outcome], out |-> << X, Y, Z >>, view |-> own \cup got,
      concrete |-> \A i \in Honest : v[i].h = {}]

\* ----------------------------------------------------------------------------------------------------------------
\* bucket of two leaky triples, then Beaver
Beaver ==
  LET X1 == Sh("x1")  Y1 == Sh("y1")  Z1 == Sh("z1")  X2 == Sh("x2")  Y2 == Sh("y2")  Z2 == Sh("z2")
      Al == Sh("al")  Be == Sh("be")
      \* d-values: bit and MAC, scattered
      dbit(i, j) == (Y1[i].bit # Y2[i].bit) # (Is("dbit", i, j) \/ Is("dboth", i, j))
      dmac(i, j) == Sym(Sym(Y1[i].mac[j], Y2[i].mac[j]),
                        IF Is("dmac", i, j) THEN {G(1)} ELSE IF Is("dboth", i, j) THEN {D(C)} ELSE {})
      dOk(j) == WEAK = "no_dvalue_mac" \/
                \A i \in Others(j) : dmac(i, j) = Sym(Sym(Y1[j].key[i], Y2[j].key[i]), Scale(dbit(i, j), {D(j)}))
      d(j) == BoolFold([i \in Ps |-> IF i = j THEN Y1[j].bit # Y2[j].bit ELSE dbit(i, j)], Ps)
      \* combined triple as computed by party j (every party uses its own view of d)
      A == [j \in Ps |-> XorS(X1[j], X2[j])]
      B == Y1
      Cc == [j \in Ps |-> XorS(XorS(Z1[j], Z2[j]), ScaleS(d(j), X2[j]))]
      \* Beaver openings
      Ds == [j \in Ps |-> XorS(A[j], Al[j])]
      Es == [j \in Ps |-> XorS(B[j], Be[j])]
      bdbit(i, j) == Ds[i].bit # (Is("bd", i, j) \/ Is("bdboth", i, j))
      bebit(i, j) == Es[i].bit # Is("be", i, j)
      bdmac(i, j) == Sym(Ds[i].mac[j], IF Is("bdmac", i, j) THEN {G(2)} ELSE IF Is("bdboth", i, j) THEN {D(C)} ELSE {})
      bemac(i, j) == Sym(Es[i].mac[j], IF Is("bemac", i, j) THEN {G(3)} ELSE {})
      bOk(j) == WEAK = "no_beaver_mac" \/
                \A i \in Others(j) : /\ bdmac(i, j) = Sym(Ds[j].key[i], Scale(bdbit(i, j), {D(j)}))
                                     /\ bemac(i, j) = Sym(Es[j].key[i], Scale(bebit(i, j), {D(j)}))
      dd(j) == BoolFold([i \in Ps |-> IF i = j THEN Ds[j].bit ELSE bdbit(i, j)], Ps)
      ee(j) == BoolFold([i \in Ps |-> IF i = j THEN Es[j].bit ELSE bebit(i, j)], Ps)
      Res == [j \in Ps |-> XorS(XorS(Cc[j], ScaleS(dd(j), Be[j])), ScaleS(ee(j), A[j]))]
      outcome(j) == IF ~dOk(j) THEN "AANDWrongMAC" ELSE IF ~bOk(j) THEN "BeaverWrongMAC" ELSE "ok"
      own == { {D(C)} } \cup UNION { { {K(C, q, s)} : q \in Others(C) } : s \in Names }
             \cup UNION { { Sh(s)[C].mac[q] : q \in Others(C) } : s \in Names }
      got == { dmac(j, C) : j \in Honest }
             \cup UNION { { bdmac(j, C), bemac(j, C) } : j \in { h \in Honest : dOk(h) } }
  IN [res |-> [p \in Honest |-> outcome(p)], out |-> << A, B, Cc, Res >>, view |-> own \cup got, concrete |-> TRUE]

Run == IF MODE = "laand" THEN LaAND ELSE Beaver

\* ----------------------------------------------------------------------------------------------------------------
Init ==
  /\ bits \in [Names -> [Ps -> BOOLEAN]]
  /\ MODE = "beaver" => /\ BoolFold(bits["z1"], Ps) = (BoolFold(bits["x1"], Ps) /\ BoolFold(bits["y1"], Ps))
                        /\ BoolFold(bits["z2"], Ps) = (BoolFold(bits["x2"], Ps) /\ BoolFold(bits["y2"], Ps))
  /\ RESTRICT => \A s \in Names \cap {"x1", "z1", "al"} : \A p \in Ps \ {0} : ~bits[s][p]
  /\ sb \in (IF SENUM THEN [Ps -> [Ps -> BOOLEAN]] ELSE { [p \in Ps |-> [q \in Ps |-> FALSE]] })
  /\ \A p \in Ps : sb[p][p] = FALSE
  /\ dev \in Devs
  /\ LET r == Run IN res = r.res /\ out = r.out /\ view = r.view /\ r.concrete
Next == UNCHANGED vars
Spec == Init /\ [][Next]_vars

\* ----------------------------------------------------------------------------------------------------------------
\* hash closure of the adversary's knowledge: H(X) is known as soon as X is in the span
HashAtoms(V) == { a \in UNION V : a[1] = "H" }
RECURSIVE Close(_)
Close(V) == LET new == { {a} : a \in { b \in HashAtoms(V) : {b} \notin V /\ InSpan(b[2], V) } } IN
            IF new = {} THEN V ELSE Close(V \cup new)
Knows(t) == InSpan(t, Close(view))

AllOk == \A h \in Honest : res[h] = "ok"
\* the AND relation and MAC validity of the produced shares
LaCorrect == LET X == out[1]  Y == out[2]  Z == out[3] IN BitOf(Z) = (BitOf(X) /\ BitOf(Y)) /\ ValidH(Z)
BeCorrect == LET A == out[1]  B == out[2]  Cc == out[3]  R == out[4] IN
             /\ BitOf(Cc) = (BitOf(A) /\ BitOf(B)) /\ ValidH(A) /\ ValidH(Cc)
             /\ BitOf(R) = (BoolFold(bits["al"], Ps) /\ BoolFold(bits["be"], Ps)) /\ ValidH(R)
Correct == IF MODE = "laand" THEN LaCorrect ELSE BeCorrect

HonestCorrect == dev.kind = "none" => AllOk /\ Correct /\ (MODE = "laand" => Valid(out[3]))
                                      /\ (MODE = "beaver" => Valid(out[4]))
\* a run that every honest party accepts has produced a correct, validly authenticated result
PassImpliesCorrect == AllOk => Correct
\* which deviations are always caught, and which are caught depending on ONE share bit of the victim only (this
\* selective failure is why the triples are "leaky" and get bucketed)
XV == bits["x"][dev.v]
Expected ==
  CASE dev.kind = "none" -> "ok"
    [] dev.kind = "h0" -> IF XV THEN "ok" ELSE "LaANDXorNotZero"
    [] dev.kind = "h1" -> IF XV THEN "LaANDXorNotZero" ELSE "ok"
    [] dev.kind \in {"uG", "uD"} -> IF XV THEN "LaANDXorNotZero" ELSE "ok"
    [] dev.kind \in {"h01", "e", "hash"} -> "LaANDXorNotZero"
    [] dev.kind = "hashcommit" -> "CommitmentCouldNotBeOpened"
    [] dev.kind \in {"dbit", "dmac", "dboth"} -> "AANDWrongMAC"
    [] dev.kind \in {"bd", "be", "bdmac", "bemac", "bdboth"} -> "BeaverWrongMAC"
\* the table the replays on the real code are compared with (CheatDetected proves it for the model); only the kinds
\* that are caught whatever the victim's bits are
Always == {"h01", "e", "hash", "hashcommit", "dbit", "dmac", "dboth", "bd", "be", "bdmac", "bemac", "bdboth"}
ErrOf(k) == CASE k \in {"h01", "e", "hash"} -> "LaANDXorNotZero"
              [] k = "hashcommit" -> "CommitmentCouldNotBeOpened"
              [] k \in {"dbit", "dmac", "dboth"} -> "AANDWrongMAC"
              [] OTHER -> "BeaverWrongMAC"
ASSUME PrintT("TABLE " \o ToJson([k \in Always |-> ErrOf(k)]))
TableSound == dev.kind \in Always => Expected = ErrOf(dev.kind)
Victims == IF dev.kind = "none" THEN {} ELSE IF MODE = "laand" THEN Honest ELSE {dev.v}
CheatDetected == \A h \in Victims : res[h] = Expected
\* the global key of a party that stays in the run is not derivable from the corrupted party's view
KeySecrecy == \A h \in Honest : res[h] = "ok" => ~Knows({D(h)})
\* documented observation (DESIGN 13): the check values H_i are opened before they are compared, and their XOR is
\* (z XOR xy) * (XOR of all global keys): a deviation that makes the triple wrong (flipped HaAND bit that the victim's
\* x bit selects, flipped e bit) makes the aborting parties' check values reveal the XOR of the honest keys -- for one
\* honest party its key.  Exactly these cases, and only aborting parties:
AbortLeakExact == \A h \in Honest : Knows({D(h)}) <=>
                    (Cardinality(Honest) = 1 /\ res[h] = "LaANDXorNotZero" /\ dev.kind \in {"h0", "h1", "h01", "e"})
=============================================================================

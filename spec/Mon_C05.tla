------------------------------- MODULE Mon_C05 -------------------------------
(***************************************************************************)
(* Property monitor for C05, over the wire trace of honest runs:           *)
(*  (a) a party outside the output set returns the empty vector;           *)
(*  (b) once a party has finished input processing (a garbler: its input   *)
(*      labels are sent; the evaluator: it holds the input labels of all   *)
(*      garblers) it is sent something only if it is in the output set;    *)
(*  (c) output opening material ("output wire shares", "lambda") is only   *)
(*      ever sent to output parties and carries values only for output     *)
(*      registers.                                                          *)
(***************************************************************************)
EXTENDS Circuit, TraceBase

VARIABLES l, cur, ipdone, nlab, viol, nchk
vars == << l, cur, ipdone, nlab, viol, nchk >>

Init == /\ l = 1 /\ cur = [run |-> "none", n |-> 0] /\ ipdone = << >> /\ nlab = << >>
        /\ viol = << >> /\ nchk = 0

r == Rec[l]
InPo(p) == \E k \in 1..Len(cur.po) : cur.po[k] = p
Opening(ph) == ph \in {"output wire shares", "lambda"}
SomeSet == IF Has(r, "some") THEN { r.some[k] : k \in 1..Len(r.some) } ELSE {}

IsSendDone == r.ev = "e" /\ r.d = "S" /\ r.ok
IsRecvDone == r.ev = "e" /\ r.d = "R" /\ r.ok

Bad ==
  IF r.ev = "res" THEN
    (IF r.kind = "ok" /\ ~InPo(r.p) /\ r.out # << >>
     THEN "non-output party obtained a result" ELSE "")
  ELSE IF IsSendDone THEN
    \* (a message of another kind to an OUTPUT party after input processing is not forbidden by the property; it is
    \*  reported by the conformance check against Skeleton as drift)
    IF (ipdone[r.q] \/ Opening(r.ph)) /\ ~InPo(r.q)
      THEN "non-output party is sent " \o r.ph
    ELSE IF (Opening(r.ph) \/ (ipdone[r.q] /\ Has(r, "some"))) /\ ~(SomeSet \subseteq cur.outregs)
      THEN "opening material for a register that is not an output: " \o r.ph
    ELSE ""
  ELSE ""

Next ==
  /\ l <= NRec /\ l' = l + 1
  /\ cur' = IF r.ev = "cfg"
            THEN [run |-> r.run, n |-> r.n, pe |-> r.pe, po |-> r.po, outregs |-> UniqueOutRegs(r.circ)]
            ELSE cur
  /\ nlab' = IF r.ev = "cfg" THEN [p \in 0..(r.n - 1) |-> 0]
             ELSE IF IsRecvDone /\ r.ph = "labels" THEN [nlab EXCEPT ![r.p] = @ + 1]
             ELSE nlab
  /\ ipdone' = IF r.ev = "cfg" THEN [p \in 0..(r.n - 1) |-> FALSE]
               ELSE IF IsSendDone /\ r.ph = "labels" THEN [ipdone EXCEPT ![r.p] = TRUE]
               ELSE IF IsRecvDone /\ r.ph = "labels" /\ nlab[r.p] + 1 = cur.n - 1
                    THEN [ipdone EXCEPT ![r.p] = TRUE]
               ELSE ipdone
  /\ nchk' = IF r.ev # "cfg" /\ (IsSendDone \/ r.ev = "res") THEN nchk + 1 ELSE nchk
  /\ viol' = IF r.ev # "cfg" /\ Bad # "" /\ Len(viol) < 5
             THEN Append(viol, [line |-> l, run |-> cur.run, what |-> Bad, p |-> r.p])
             ELSE viol

Spec == Init /\ [][Next]_vars
Report == (l = NRec + 1) =>
  JsonSerialize(IOEnv.OUT, [total |-> NRec, checked |-> nchk, viol |-> viol])
=============================================================================

------------------------------ MODULE MC_Online ------------------------------
(***************************************************************************)
(* Exhaustive check of the symbolic online phase for one public            *)
(* configuration (CFG: n, pe, po, circ, c = corrupted party): all inputs,  *)
(* all share bits consistent with the ideal AND functionality, and every   *)
(* single-field deviation of the corrupted party.                          *)
(*  HonestCorrect  without deviation every party returns Ok; output        *)
(*                 parties return ClearEval, the others nothing (C01);     *)
(*                 this also checks the transcription of the garbling      *)
(*                 algebra (label recombination, row-3 offsets, NOT)       *)
(*  TamperAborts   a deviation that is certainly consumed makes its victim *)
(*                 return the error the code names for that check (C03)    *)
(*  Integrity      an honest output party that returns Ok returns the      *)
(*                 circuit's value for SOME input of the corrupted party,  *)
(*                 the same for all honest output parties (C02)            *)
(* Export prints, per deviation, the victim's outcome: the prediction that *)
(* the replays of the same deviation on the real code are compared with.   *)
(***************************************************************************)
EXTENDS Wrk17Online, Json, IOUtils

CFG == JsonDeserialize(IOEnv.CFG)
Cfg == [n |-> CFG.n, pe |-> CFG.pe, po |-> CFG.po, circ |-> CFG.circ, weak |-> IF "weak" \in DOMAIN CFG THEN CFG.weak ELSE ""]
C == CFG.c
Ps == 0 .. (Cfg.n - 1)
Honest == Ps \ {C}
Ids == BaseIds(Cfg.circ)
InPoSet(p) == \E k \in 1..Len(Cfg.po) : Cfg.po[k] = p
OutParties == { p \in Ps : InPoSet(p) }

Devs ==
  {NoDev}
  \cup { [kind |-> kd, to |-> o, pos |-> k, how |-> ""] : kd \in {"ws_bit", "ws_mac"}, o \in Honest,
           k \in { j \in InputInsts(Cfg.circ) : Cfg.circ.insts[j].a \in Honest } }
  \cup { [kind |-> kd, to |-> q, pos |-> r, how |-> ""] : kd \in {"ows_bit", "ows_mac"}, q \in Honest \cap OutParties, r \in UniqueOutRegs(Cfg.circ) }
  \cup (IF C # Cfg.pe
        THEN { [kind |-> "label", to |-> Cfg.pe, pos |-> k, how |-> h] : k \in InputInsts(Cfg.circ), h \in {"garbage", "other"} }
             \cup { [kind |-> kd, to |-> Cfg.pe, pos |-> k, how |-> ""] : kd \in {"row_ct", "row_share"}, k \in AndInsts(Cfg.circ) }
        ELSE { [kind |-> kd, to |-> q, pos |-> r, how |-> ""] : kd \in {"lam_val", "lam_lab"}, q \in Honest \cap OutParties, r \in UniqueOutRegs(Cfg.circ) })
  \cup (IF Cfg.n >= 3
        THEN { [kind |-> "mi_equiv", to |-> q, pos |-> k, how |-> ""] : q \in Honest, k \in { j \in InputInsts(Cfg.circ) : Cfg.circ.insts[j].a = C } }
        ELSE {})
\* the owner of the wire must be the addressee for the input-share deviations
DevOk(d) == d.kind \in {"ws_bit", "ws_mac"} => Cfg.circ.insts[d.pos].a = d.to

InputSpace == [1..Cfg.n -> UNION { [1..m -> BOOLEAN] : m \in 0..3 }]
ValidInputs(x) == \A p \in 1..Cfg.n : DOMAIN x[p] = 1..Cfg.circ.ir[p]

VARIABLES inputs, rb, dev, out
vars == << inputs, rb, dev, out >>

FixedInputs == "fixinputs" \in DOMAIN CFG
Init ==
  /\ inputs \in IF FixedInputs THEN { CFG.fixinputs } ELSE { x \in InputSpace : ValidInputs(x) }
  /\ rb \in { f \in [1..Cfg.n -> [Ids -> BOOLEAN]] : SigmaOk(Cfg, f) }
  /\ dev \in { d \in Devs : DevOk(d) }
  /\ out = Run(Cfg, inputs, rb, C, dev)
Next == UNCHANGED vars
Spec == Init /\ [][Next]_vars

Expect == ClearEval(Cfg.circ, inputs)
HonestCorrect ==
  dev = NoDev => \A p \in Ps : out[p].kind = "ok" /\ out[p].out = (IF InPoSet(p) THEN Expect ELSE << >>)

\* the error the code names for the check that consumes each kind of altered field
ErrOf(kind) ==
  CASE kind \in {"ws_bit", "ws_mac"} -> "MpcError.InvalidInputMacForInst"
    [] kind \in {"ows_bit", "ows_mac"} -> "MpcError.InvalidOutputMac"
    [] kind \in {"lam_val", "lam_lab"} -> "MpcError.InvalidOutputLabel"
    [] kind \in {"row_ct", "label"} -> "GarblingError.DecryptionFailed"
    [] kind = "row_share" -> "MpcError.InvalidInputMacForInst"
    [] kind = "mi_equiv" -> "PreprocessingError.InconsistentBroadcast"
    [] OTHER -> ""
VictimErr == ErrOf(dev.kind)
Kinds == {"ws_bit", "ws_mac", "ows_bit", "ows_mac", "lam_val", "lam_lab", "row_ct", "label", "row_share", "mi_equiv"}
\* the table the replays on the real code are compared with (TamperAborts proves it for the model)
ASSUME PrintT("TABLE " \o ToJson([k \in Kinds |-> ErrOf(k)]))
TamperAborts ==
  (dev.kind \notin {"none", "label"}) =>
    IF dev.kind = "mi_equiv" THEN \A p \in Honest : out[p].kind = "err"
    ELSE out[dev.to].kind = "err" /\ out[dev.to].err = VictimErr
\* a forged label is consumed only if the wire reaches an AND gate: then decryption fails; otherwise nothing changes
LabelTamper ==
  dev.kind = "label" => \/ out[Cfg.pe].err = "GarblingError.DecryptionFailed"
                        \/ \A p \in Honest : out[p].kind = "ok" /\ out[p].out = (IF InPoSet(p) THEN Expect ELSE << >>)

Substs == [1..Cfg.circ.ir[C + 1] -> BOOLEAN]
WithSubst(x) == [p \in 1..Cfg.n |-> IF p = C + 1 THEN x ELSE inputs[p]]
Integrity ==
  /\ \E x \in Substs : \A p \in Honest \cap OutParties : out[p].kind = "ok" => out[p].out = ClearEval(Cfg.circ, WithSubst(x))
  /\ \A p \in Honest \ OutParties : out[p].kind = "ok" => out[p].out = << >>

=============================================================================

------------------------------- MODULE Mon_C09 -------------------------------
(***************************************************************************)
(* Property monitor for C09.  Runs that share a public configuration       *)
(* (tag.grp) but differ in private inputs, coins, schedules and tmp_dir    *)
(* choices are adjacent in the trace.  For every ordered pair (p, q) the   *)
(* sequence of (phase, byte length) of the messages p sends to q, and the  *)
(* number of receives p performs from q, must be identical in all runs of  *)
(* a group.  Independent of the size formulas of Skeleton.                  *)
(***************************************************************************)
EXTENDS TraceBase, FiniteSets

VARIABLES l, grp, ref, seqs, nrecv, refrecv, viol, ngroups, nruns
vars == << l, grp, ref, seqs, nrecv, refrecv, viol, ngroups, nruns >>

Init == /\ l = 1 /\ grp = "" /\ ref = << >> /\ seqs = << >> /\ nrecv = << >> /\ refrecv = << >>
        /\ viol = << >> /\ ngroups = 0 /\ nruns = 0

r == Rec[l]
Pairs(n) == (0..(n - 1)) \X (0..(n - 1))
NewGroup == r.ev = "cfg" /\ r.tag.grp # grp

\* first difference between two sequences, as text
Diff(a, b) ==
  IF Len(a) # Len(b) THEN "different number of messages"
  ELSE LET ks == { k \in 1..Len(a) : a[k] # b[k] } IN
       IF ks = {} THEN ""
       ELSE LET k == CHOOSE k \in ks : \A j \in ks : k <= j IN
            "message " \o ToString(k) \o " (" \o a[k][1] \o "): length " \o ToString(a[k][2])
            \o " vs (" \o b[k][1] \o ") " \o ToString(b[k][2])

BadPairs == { pq \in DOMAIN seqs : Diff(ref[pq], seqs[pq]) # "" \/ refrecv[pq] # nrecv[pq] }

EndBad ==
  IF r.ev = "end" /\ ref # << >> /\ BadPairs # {}
  THEN LET pq == CHOOSE pq \in BadPairs : TRUE IN
       "pair " \o ToString(pq[1]) \o "->" \o ToString(pq[2]) \o ": "
       \o (IF Diff(ref[pq], seqs[pq]) # "" THEN Diff(ref[pq], seqs[pq]) ELSE "different number of receives")
  ELSE ""

Next ==
  /\ l <= NRec /\ l' = l + 1
  /\ grp' = IF r.ev = "cfg" THEN r.tag.grp ELSE grp
  /\ ngroups' = IF NewGroup THEN ngroups + 1 ELSE ngroups
  /\ nruns' = IF r.ev = "cfg" THEN nruns + 1 ELSE nruns
  /\ seqs' = IF r.ev = "cfg" THEN [pq \in Pairs(r.n) |-> << >>]
             ELSE IF r.ev = "e" /\ r.d = "S" /\ r.ok
                  THEN [seqs EXCEPT ![<< r.p, r.q >>] = Append(@, << r.ph, r.len >>)]
             ELSE seqs
  /\ nrecv' = IF r.ev = "cfg" THEN [pq \in Pairs(r.n) |-> 0]
              ELSE IF r.ev = "e" /\ r.d = "R" /\ r.ok
                   THEN [nrecv EXCEPT ![<< r.p, r.q >>] = @ + 1]
              ELSE nrecv
  \* the first run of a group becomes the reference
  /\ ref' = IF NewGroup THEN << >> ELSE IF r.ev = "end" /\ ref = << >> THEN seqs ELSE ref
  /\ refrecv' = IF NewGroup THEN << >> ELSE IF r.ev = "end" /\ ref = << >> THEN nrecv ELSE refrecv
  /\ viol' = IF EndBad # "" /\ Len(viol) < 5
             THEN Append(viol, [line |-> l, run |-> r.run, what |-> EndBad, p |-> 0])
             ELSE viol

Spec == Init /\ [][Next]_vars
Report == (l = NRec + 1) =>
  JsonSerialize(IOEnv.OUT, [total |-> NRec, checked |-> nruns, groups |-> ngroups, viol |-> viol])
=============================================================================

---------------------------- MODULE Trace_Engine ----------------------------
(***************************************************************************)
(* Detailed conformance: every recorded run of the real mpc() must be a    *)
(* behaviour of Skeleton (program order, phase labels, byte-exact lengths) *)
(* composed with Sched (FIFO queues of the recorded capacity).  The         *)
(* program is computed from the PUBLIC configuration of the run only; the  *)
(* inputs are not consulted (C09).  Rejection = SPEC-DRIFT, not a property *)
(* violation (DESIGN 3.5).                                                  *)
(***************************************************************************)
EXTENDS Skeleton, Sched, TraceBase

VARIABLES l, cfg, prog, pst, net
vars == << l, cfg, prog, pst, net >>

NoCfg == [n |-> 0]
PartySet == 0 .. (cfg.n - 1)

Init == l = 1 /\ cfg = NoCfg /\ prog = << >> /\ pst = << >> /\ net = << >>

r == Rec[l]

TCfg ==
  /\ r.ev = "cfg"
  /\ LET c == [n |-> r.n, pe |-> r.pe, po |-> r.po, circ |-> r.circ, cap |-> r.cap]
         ps == 0 .. (r.n - 1)
         pr == [p \in ps |-> Program(c, p)] IN
       /\ cfg' = c
       /\ prog' = pr
       /\ pst' = [p \in ps |-> FreshPst(pr, p, 1)]
       /\ net' = EmptyNet(ps)

Matches(op) == op.d = r.d /\ op.q = r.q /\ op.ph = r.ph

\* an operation is posted
TPost ==
  /\ r.ev = "s"
  /\ ~Done(prog, pst, r.p)
  /\ \E c \in 1..Len(Group(prog, pst, r.p)) :
       /\ Live(prog, pst, r.p, c)
       /\ ~pst[r.p].st[c]
       /\ Matches(HeadOp(prog, pst, r.p, c))
       /\ (r.d = "S" => HeadOp(prog, pst, r.p, c).len = r.len)
       /\ pst' = [pst EXCEPT ![r.p].st[c] = TRUE]
  /\ UNCHANGED << cfg, prog, net >>

\* a posted operation completes
TDone ==
  /\ r.ev = "e" /\ r.ok
  /\ ~Done(prog, pst, r.p)
  /\ \E c \in 1..Len(Group(prog, pst, r.p)) :
       /\ Live(prog, pst, r.p, c)
       \* (traces may omit the "posted" lines; posting is then implicit)
       /\ Matches(HeadOp(prog, pst, r.p, c))
       /\ HeadOp(prog, pst, r.p, c).len = r.len
       /\ Enabled(prog, pst, net, cfg.cap, r.p, c)
       /\ RecvMatches(net, r.p, HeadOp(prog, pst, r.p, c))
       /\ net' = NetAfter(net, r.p, HeadOp(prog, pst, r.p, c))
       /\ pst' = [pst EXCEPT ![r.p] = Advance(prog, pst, r.p, c)]
  /\ UNCHANGED << cfg, prog >>

\* a party returned: it must have completed its program
TRes ==
  /\ r.ev = "res"
  /\ r.kind = "ok"
  /\ Done(prog, pst, r.p)
  /\ UNCHANGED << cfg, prog, pst, net >>

TEndRun ==
  /\ r.ev = "end"
  /\ \A p, q \in PartySet : net[p][q] = << >>
  /\ UNCHANGED << cfg, prog, pst, net >>

Next == l <= NRec /\ l' = l + 1 /\ (TCfg \/ TPost \/ TDone \/ TRes \/ TEndRun)

Spec == Init /\ [][Next]_vars

Consumed == TLCGet("stats").diameter - 1
Accepted ==
  JsonSerialize(IOEnv.OUT,
    [total |-> NRec, consumed |-> Consumed,
     first_unmatched |-> IF Consumed < NRec THEN Rec[Consumed + 1] ELSE [ev |-> "none"]])
=============================================================================

------------------------------- MODULE Mon_C18 -------------------------------
(***************************************************************************)
(* Property monitor for C18 over runs of the real mpc() in which party x   *)
(* was given one argument of a (possibly invalid) class; cfg.tag carries    *)
(* the row of spec/MpcArgs.tla and what C18 demands for it:                 *)
(*   reject         x returns Err and attempted no channel operation        *)
(*   reject_or_set  (repeated output index) all parties reject up front, or *)
(*                  the run behaves as for the set of indices               *)
(*   run            valid arguments: everybody Ok with the clear-text value *)
(*   nopanic        (inconsistent circuit counters) nobody panics or hangs  *)
(* Never a panic; never a party that does not terminate.                    *)
(***************************************************************************)
EXTENDS Circuit, TraceBase, FiniteSets

VARIABLES l, cur, posts, res, viol, nchk
vars == << l, cur, posts, res, viol, nchk >>
Init == l = 1 /\ cur = [run |-> "none"] /\ posts = << >> /\ res = << >> /\ viol = << >> /\ nchk = 0
e == Rec[l]

Ps == 0 .. (cur.n - 1)
InSet(sq, p) == \E k \in 1..Len(sq) : sq[k] = p
Expect == ClearEval(cur.circ, cur.inputs)
RunsAsSet(po) == \A p \in Ps : res[p].kind = "ok" /\ res[p].out = (IF InSet(po, p) THEN Expect ELSE << >>)

Bad ==
  LET t == cur.tag
      x == t.row.x IN
  IF \E p \in Ps : res[p].kind = "panic" THEN "a party panicked"
  ELSE IF \E p \in Ps : res[p].kind = "hang" THEN "a party never returns"
  ELSE IF t.demand = "reject" THEN
    (IF res[x].kind # "err" THEN "invalid argument accepted: party returned " \o res[x].kind
     ELSE IF posts[x] # 0 THEN "invalid argument rejected only after " \o ToString(posts[x]) \o " channel operations"
     ELSE "")
  ELSE IF t.demand = "reject_or_set" THEN
    (IF (\A p \in Ps : res[p].kind = "err" /\ posts[p] = 0) \/ RunsAsSet(cur.po) THEN ""
     ELSE "repeated output index neither rejected up front nor treated as a set")
  ELSE IF t.demand = "run" THEN
    (IF RunsAsSet(cur.po) THEN "" ELSE "valid arguments but the run did not produce the clear-text value")
  ELSE ""

Next ==
  /\ l <= NRec /\ l' = l + 1
  /\ cur' = IF e.ev = "cfg" THEN e ELSE cur
  /\ posts' = IF e.ev = "cfg" THEN [p \in 0..(e.n - 1) |-> 0]
              ELSE IF e.ev = "s" THEN [posts EXCEPT ![e.p] = @ + 1] ELSE posts
  /\ res' = IF e.ev = "cfg" THEN << >>
            ELSE IF e.ev = "res" THEN (e.p :> e) @@ res ELSE res
  /\ nchk' = IF e.ev = "end" THEN nchk + 1 ELSE nchk
  /\ viol' = IF e.ev = "end" /\ Bad # "" /\ Len(viol) < 30
             THEN Append(viol, [line |-> l, run |-> cur.run, what |-> Bad, p |-> cur.tag.row.x])
             ELSE viol
Spec == Init /\ [][Next]_vars
Report == (l = NRec + 1) => JsonSerialize(IOEnv.OUT, [total |-> NRec, checked |-> nchk, viol |-> viol])
=============================================================================

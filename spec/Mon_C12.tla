------------------------------- MODULE Mon_C12 -------------------------------
(***************************************************************************)
(* Property monitor for C12 over runs of the real engine under arbitrary   *)
(* schedules on bounded FIFO channels: every party terminates (no Hang),   *)
(* returns Ok with the clear-text value at output parties and the empty    *)
(* vector elsewhere; per ordered pair the k-th completed receive carries   *)
(* the phase label and length of the k-th completed send (FIFO order alone *)
(* pairs messages with receives); the queue bound is respected; never two  *)
(* sends or two receives outstanding for one peer.                          *)
(***************************************************************************)
EXTENDS Circuit, TraceBase

VARIABLES l, cur, q, outst, viol, nres, nops
vars == << l, cur, q, outst, viol, nres, nops >>

Init == /\ l = 1 /\ cur = [run |-> "none"] /\ q = << >> /\ outst = << >> /\ viol = << >>
        /\ nres = 0 /\ nops = 0

r == Rec[l]
InPo(p) == \E k \in 1..Len(cur.po) : cur.po[k] = p
PP(n) == (0..(n - 1)) \X (0..(n - 1))

Bad ==
  IF r.ev = "res" THEN
    IF r.kind = "hang" THEN "party never terminates (deadlock)"
    ELSE IF r.kind # "ok" THEN "party did not return Ok: " \o r.kind \o " " \o r.err
    ELSE IF InPo(r.p) THEN (IF r.out = cur.expect THEN "" ELSE "wrong output under this schedule")
    ELSE (IF r.out = << >> THEN "" ELSE "non-output party returned bits")
  ELSE IF r.ev = "s" THEN
    (IF outst[<< r.p, r.d, r.q >>] >= 1
     THEN "two operations of the same direction outstanding for one peer" ELSE "")
  ELSE IF r.ev = "e" /\ r.ok /\ r.d = "R" THEN
    (IF q[<< r.q, r.p >>] = << >> THEN "receive completed on an empty queue"
     ELSE IF Head(q[<< r.q, r.p >>]) # << r.ph, r.len >>
          THEN "receive labelled " \o r.ph \o " consumed a message labelled " \o Head(q[<< r.q, r.p >>])[1]
     ELSE "")
  ELSE IF r.ev = "e" /\ r.ok /\ r.d = "S" THEN
    (IF cur.cap > 0 /\ Len(q[<< r.p, r.q >>]) >= cur.cap THEN "send completed on a full queue" ELSE "")
  ELSE IF r.ev = "end" THEN
    (IF r.maxout > 1 THEN "more than one outstanding operation per peer and direction" ELSE "")
  ELSE ""

Next ==
  /\ l <= NRec /\ l' = l + 1
  /\ cur' = IF r.ev = "cfg"
            THEN [run |-> r.run, po |-> r.po, cap |-> r.cap, expect |-> ClearEval(r.circ, r.inputs)]
            ELSE cur
  /\ q' = IF r.ev = "cfg" THEN [pq \in PP(r.n) |-> << >>]
          ELSE IF r.ev = "e" /\ r.ok /\ r.d = "S" THEN [q EXCEPT ![<< r.p, r.q >>] = Append(@, << r.ph, r.len >>)]
          ELSE IF r.ev = "e" /\ r.ok /\ r.d = "R" /\ q[<< r.q, r.p >>] # << >>
               THEN [q EXCEPT ![<< r.q, r.p >>] = Tail(@)]
          ELSE q
  /\ outst' = IF r.ev = "cfg" THEN [x \in (0..(r.n - 1)) \X {"S", "R"} \X (0..(r.n - 1)) |-> 0]
              ELSE IF r.ev = "s" THEN [outst EXCEPT ![<< r.p, r.d, r.q >>] = @ + 1]
              ELSE IF r.ev = "e" THEN [outst EXCEPT ![<< r.p, r.d, r.q >>] = IF @ > 0 THEN @ - 1 ELSE 0]
              ELSE outst
  /\ nres' = IF r.ev = "res" THEN nres + 1 ELSE nres
  /\ nops' = IF r.ev = "e" THEN nops + 1 ELSE nops
  /\ viol' = IF r.ev # "cfg" /\ Bad # "" /\ Len(viol) < 5
             THEN Append(viol, [line |-> l, run |-> cur.run, what |-> Bad, p |-> IF Has(r, "p") THEN r.p ELSE 0 - 1])
             ELSE viol

Spec == Init /\ [][Next]_vars
Report == (l = NRec + 1) =>
  JsonSerialize(IOEnv.OUT, [total |-> NRec, checked |-> nres, ops |-> nops, viol |-> viol])
=============================================================================

------------------------------- MODULE Mon_C06 -------------------------------
(***************************************************************************)
(* Property monitor for C06 over a HISTORY of honest runs with fixed       *)
(* inputs.  For the observed party h (cfg.tag.h) and each of its input     *)
(* wires w, only the transcript is used: the bit h broadcasts for w        *)
(* ("masked inputs") and the mask shares the other parties sent to h for w *)
(* ("wire shares").  Their XOR  y = masked XOR others  equals              *)
(* input XOR h's own mask share.                                            *)
(*  Balance   over the runs of a group, y is balanced for input 0 and for  *)
(*            input 1 alike: |ones - N/2| <= 2.5 sqrt(N) (5 sigma)          *)
(*  NoReuse   no two (party, run) use the same global key (probe) and no   *)
(*            two canary runs the same own-mask vector                      *)
(*  Canary    128 random input bits never appear as the broadcast vector,  *)
(*            its complement, or a bit/byte pattern in h's traffic          *)
(***************************************************************************)
EXTENDS Circuit, TraceBase, FiniteSets

VARIABLES l, cur, masked, others, sent, cnt, deltas, ndelta, owns, nown, viol, nruns, disc, hist
vars == << l, cur, masked, others, sent, cnt, deltas, ndelta, owns, nown, viol, nruns, disc, hist >>

Init == /\ l = 1 /\ cur = [run |-> "none"] /\ masked = << >> /\ others = << >> /\ sent = << >> /\ cnt = << >>
        /\ deltas = {} /\ ndelta = 0 /\ owns = {} /\ nown = 0 /\ viol = << >> /\ nruns = 0
        /\ disc = << >> /\ hist = << >>
e == Rec[l]
H == cur.tag.h

\* input wires of h: register -> input bit of h
WiresOf(c, h) == { c.insts[k].out : k \in { j \in InputInsts(c) : c.insts[j].a = h } }
\* (an Input instruction writes the register with its own position: Circuit.InstOK)
InputBit(c, inputs, h, reg) == inputs[h + 1][c.insts[reg + 1].b + 1]

BitAt(v, reg) == IF v[reg + 1].some THEN (IF v[reg + 1].v = 1 THEN 1 ELSE 0) ELSE 2
ShareBitAt(v, reg) == IF v[reg + 1].some THEN v[reg + 1].v[1] ELSE 0

Key(w, x) == << cur.tag.grp, w, x >>
Bump(c, k, y) == IF k \in DOMAIN c THEN [c EXCEPT ![k] = [n |-> @.n + 1, ones |-> @.ones + y]]
                 ELSE (k :> [n |-> 1, ones |-> y]) @@ c

RECURSIVE BumpAll(_, _)
BumpAll(c, ws) ==
  IF ws = {} THEN c
  ELSE LET w == CHOOSE x \in ws : TRUE
           x == IF InputBit(cur.circ, cur.inputs, H, w) THEN 1 ELSE 0
           y == (masked[w] + others[w]) % 2 IN
       BumpAll(Bump(c, Key(w, x), y), ws \ {w})

Wires == WiresOf(cur.circ, H)
\* second order, for parties with a few input wires: the own mask shares of two DIFFERENT wires are independent, so their
\* XOR is balanced too (key << grp, a, 100 + b >>)
PairsOf(ws) == IF Cardinality(ws) <= 4 THEN { pr \in ws \X ws : pr[1] < pr[2] } ELSE {}
RECURSIVE BumpPairs(_, _, _)
BumpPairs(c, ps, ov) ==
  IF ps = {} THEN c
  ELSE LET pr == CHOOSE x \in ps : TRUE IN
       BumpPairs(Bump(c, << cur.tag.grp, pr[1], 100 + pr[2] >>, (ov[pr[1]] + ov[pr[2]]) % 2), ps \ {pr}, ov)
OwnVec == [w \in Wires |-> (masked[w] + others[w] + (IF InputBit(cur.circ, cur.inputs, H, w) THEN 1 ELSE 0)) % 2]
MaskedEqualsInput == \A w \in Wires : masked[w] = (IF InputBit(cur.circ, cur.inputs, H, w) THEN 1 ELSE 0)
MaskedEqualsComplement == \A w \in Wires : masked[w] # (IF InputBit(cur.circ, cur.inputs, H, w) THEN 1 ELSE 0)

\* NoDisclosure (runs tagged `reuse`: many input wires, several preprocessing batches): the sequence of the
\* party's own mask shares (in wire order) must not reappear among the mask shares it DISCLOSED to the other
\* parties ("wire shares"), and vice versa -- as it does when one random stream is replayed inside an execution.
\* Compared on windows of 64 bits (chance 2^-64 per alignment).
SeqOf(S, f(_)) == LET RECURSIVE F(_) F(T) == IF T = {} THEN << >> ELSE LET m == CHOOSE x \in T : \A y \in T : x <= y IN << f(m) >> \o F(T \ {m}) IN F(S)
Win == 64
Reappears(a, b) == Len(a) >= Win /\ Len(b) >= Win /\
                   \E st \in 1..(Len(b) - Win + 1) : \/ SubSeq(b, st, st + Win - 1) = SubSeq(a, 1, Win)
                                                      \/ \A k \in 1..Win : b[st + k - 1] # a[k]
\* Distinct wires carry independent masks (groups tagged `dupw`: one circuit with more than 1000 input wires, so that the
\* random shares come from several batches; the same observed party in every run).  From the transcript the party's share of
\* EVERY input wire is known: derived as above for its own wires, disclosed in "wire shares" for the others'.  The history of
\* a wire over the runs of the group is a bit string; after N >= 40 runs two wires with the same history (chance 2^-N per
\* pair) carry the same share in every execution -- e.g. a batch of shares that repeats part of the previous batch.
IsDup == "dupw" \in DOMAIN cur.tag
InWires == AllInputRegs(cur.circ)
ShareOf(w, ov) == IF w \in Wires THEN ov[w] ELSE disc[w]
Repeated(h) == { pr \in (DOMAIN h) \X (DOMAIN h) : pr[1] < pr[2] /\ h[pr[1]] = h[pr[2]] }
DupGroups == { g \in DOMAIN hist : LET h == hist[g] IN Len(h[CHOOSE w \in DOMAIN h : TRUE]) >= 40
                                      /\ Cardinality({ h[w] : w \in DOMAIN h }) < Cardinality(DOMAIN h) }

RunBad ==
  IF e.ev = "end" /\ (\E w \in Wires : masked[w] = 2) THEN "no masked input broadcast seen for an input wire"
  ELSE IF e.ev = "end" /\ cur.tag.reuse /\ (LET ov == OwnVec
                                                  os == SeqOf(Wires, LAMBDA w : ov[w]) IN
                                              Reappears(os, sent) \/ Reappears(sent, os))
    THEN "the party's own mask shares repeat mask shares it disclosed to others (one random stream replayed)"
  ELSE IF e.ev = "end" /\ cur.tag.canary /\ (MaskedEqualsInput \/ MaskedEqualsComplement)
    THEN "the broadcast vector equals the plain input bits (or their complement)"
  ELSE IF e.ev = "end" /\ cur.tag.canary /\ Cardinality(Wires) >= 64 /\ (\A w \in Wires : masked[w] # 2)
          /\ (LET ov == OwnVec IN \A a, b \in Wires : ov[a] = ov[b])
    THEN "the own mask shares of all input wires of the party are equal"
  ELSE IF e.ev = "canary" /\ e.hits > 0 THEN "the plain input bits appear in the party's traffic"
  ELSE ""

Unbalanced == { k \in DOMAIN cnt : cnt[k].n >= 100 /\ (2 * cnt[k].ones - cnt[k].n) * (2 * cnt[k].ones - cnt[k].n) > 25 * cnt[k].n }
FinalBad ==
  IF DupGroups # {} THEN
    LET g == CHOOSE x \in DupGroups : TRUE
        pr == CHOOSE x \in Repeated(hist[g]) : TRUE IN
    "two wires carry the same mask share of the party in every execution: group " \o g \o " wires " \o ToString(pr[1]) \o ", "
    \o ToString(pr[2]) \o " (" \o ToString(Len(hist[g][pr[1]])) \o " runs)"
  ELSE IF Unbalanced # {} THEN
    LET k == CHOOSE x \in Unbalanced : TRUE IN
    IF k[3] >= 100
    THEN "own mask shares of two input wires are correlated: group " \o k[1] \o " wires " \o ToString(k[2]) \o ", " \o ToString(k[3] - 100)
         \o ": XOR is 1 in " \o ToString(cnt[k].ones) \o " of " \o ToString(cnt[k].n) \o " runs"
    ELSE "input XOR own mask share is not balanced: group " \o k[1] \o " wire " \o ToString(k[2]) \o " input " \o ToString(k[3])
    \o ": " \o ToString(cnt[k].ones) \o " ones in " \o ToString(cnt[k].n) \o " runs"
  ELSE IF Cardinality(deltas) # ndelta THEN "two executions or parties used the same global key"
  ELSE IF Cardinality(owns) # nown THEN "two executions used the same own-mask vector"
  ELSE ""

Next ==
  /\ l <= NRec /\ l' = l + 1
  /\ cur' = IF e.ev = "cfg" THEN e ELSE cur
  /\ nruns' = IF e.ev = "cfg" THEN nruns + 1 ELSE nruns
  /\ masked' = IF e.ev = "cfg" THEN [w \in WiresOf(e.circ, e.tag.h) |-> 2]
               ELSE IF e.ev = "msg" /\ e.ph = "masked inputs" /\ e.from = H
                    THEN [w \in Wires |-> BitAt(e.v, w)] ELSE masked
  /\ others' = IF e.ev = "cfg" THEN [w \in WiresOf(e.circ, e.tag.h) |-> 0]
               ELSE IF e.ev = "msg" /\ e.ph = "wire shares" /\ e.to = H
                    THEN [w \in Wires |-> (others[w] + ShareBitAt(e.v, w)) % 2] ELSE others
  /\ sent' = IF e.ev = "cfg" THEN << >>
             ELSE IF e.ev = "msg" /\ e.ph = "wire shares" /\ e.from = H
                  THEN sent \o SelectSeq([k \in 1..Len(e.v) |-> IF e.v[k].some THEN e.v[k].v[1] ELSE 2], LAMBDA b : b # 2)
             ELSE sent
  /\ disc' = IF e.ev = "cfg" THEN [w \in AllInputRegs(e.circ) |-> 2]
             ELSE IF e.ev = "msg" /\ e.ph = "wire shares" /\ e.from = H
                  THEN [w \in DOMAIN disc |-> IF e.v[w + 1].some THEN e.v[w + 1].v[1] ELSE disc[w]] ELSE disc
  /\ hist' = IF e.ev = "end" /\ IsDup /\ (\A w \in Wires : masked[w] # 2) /\ (\A w \in InWires \ Wires : disc[w] # 2)
             THEN LET ov == OwnVec
                      g == cur.tag.grp
                      old == IF g \in DOMAIN hist THEN hist[g] ELSE [w \in InWires |-> << >>] IN
                  (g :> [w \in InWires |-> Append(old[w], ShareOf(w, ov))]) @@ hist
             ELSE hist
  /\ cnt' = IF e.ev = "end" /\ ~cur.tag.canary /\ (\A w \in Wires : masked[w] # 2) THEN BumpPairs(BumpAll(cnt, Wires), PairsOf(Wires), OwnVec) ELSE cnt
  /\ deltas' = IF e.ev = "probe" /\ e.name = "delta" THEN deltas \cup {e.vals[1]} ELSE deltas
  /\ ndelta' = IF e.ev = "probe" /\ e.name = "delta" THEN ndelta + 1 ELSE ndelta
  /\ owns' = IF e.ev = "end" /\ cur.tag.canary THEN owns \cup {OwnVec} ELSE owns
  /\ nown' = IF e.ev = "end" /\ cur.tag.canary THEN nown + 1 ELSE nown
  /\ viol' = IF e.ev # "cfg" /\ RunBad # "" /\ Len(viol) < 10
             THEN Append(viol, [line |-> l, run |-> cur.run, what |-> RunBad, p |-> H]) ELSE viol

Spec == Init /\ [][Next]_vars
Report == (l = NRec + 1) =>
  JsonSerialize(IOEnv.OUT, [total |-> NRec, checked |-> nruns, counters |-> Cardinality(DOMAIN cnt), keys |-> ndelta,
     wirehist |-> [g \in DOMAIN hist |-> Len(hist[g][CHOOSE w \in DOMAIN hist[g] : TRUE])],
     viol |-> IF FinalBad # "" THEN Append(viol, [line |-> l, run |-> "history", what |-> FinalBad, p |-> 0]) ELSE viol])
=============================================================================

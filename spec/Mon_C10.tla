------------------------------- MODULE Mon_C10 -------------------------------
(***************************************************************************)
(* C10: the outputs of the real preprocessing (distributed protocol and    *)
(* trusted dealer), exported as plain integers, satisfy                     *)
(*   ShareRel   for every ordered pair (i, j) and every share:              *)
(*              MAC held by i for j = key held by j for i  XOR  bit_i * D_j *)
(*   TripleRel  XOR of the AND shares = (XOR of left bits) AND (XOR of      *)
(*              right bits), with valid MACs on the AND shares as well      *)
(*   SameCoins  all parties derived the same shared coins                   *)
(* and every party got the requested number of shares.                      *)
(***************************************************************************)
EXTENDS TraceBase, Limbs, FiniteSets

VARIABLES l, viol, nchk, nrel
vars == << l, viol, nchk, nrel >>
Init == l = 1 /\ viol = << >> /\ nchk = 0 /\ nrel = 0
e == Rec[l]

Ps(r) == 1 .. r.n
ShareOk(r, field, t, i, j) ==
  LET si == r.parties[i][field][t]
      sj == r.parties[j][field][t] IN
  si.m[j] = XorL(sj.k[i], AndBit(si.b = 1, r.parties[j].delta))
XorBits(r, f(_)) == LET RECURSIVE X(_) X(p) == IF p = 0 THEN 0 ELSE (f(p) + X(p - 1)) % 2 IN X(r.n)

Bad(r) ==
  IF \E p \in 1..Len(r.status) : r.status[p] # "ok" THEN "preprocessing failed in an honest run: " \o r.status[1]
  ELSE IF \E p \in Ps(r) : r.parties[p].nshares # r.l_rand \/ r.parties[p].nands # r.l_and THEN "wrong number of shares returned"
  ELSE IF \E i, j \in Ps(r) : i # j /\ \E t \in 1..Len(r.idx) : ~ShareOk(r, "shares", t, i, j)
    THEN "share relation violated (random share)"
  ELSE IF \E i, j \in Ps(r) : i # j /\ \E t \in 1..Len(r.aidx) : ~ShareOk(r, "ands", t, i, j)
    THEN "share relation violated (AND share)"
  ELSE IF \E t \in 1..Len(r.aidx) :
            XorBits(r, LAMBDA p : r.parties[p].ands[t].b)
              # (XorBits(r, LAMBDA p : r.parties[p].andin[t][1]) * XorBits(r, LAMBDA p : r.parties[p].andin[t][2]))
    THEN "AND triple relation violated"
  ELSE IF r.mode = "dist" /\ \E i, j \in Ps(r) : r.parties[i].multi_coin # r.parties[j].multi_coin
    THEN "parties derived different multi-party coins"
  ELSE IF r.mode = "dist" /\ \E i, j \in Ps(r) : i # j /\ r.parties[i].pair_coins[j] # r.parties[j].pair_coins[i]
    THEN "parties derived different pairwise coins"
  ELSE IF \E i, j \in Ps(r) : i # j /\ r.parties[i].delta = r.parties[j].delta THEN "two parties share a global key"
  ELSE ""

Next ==
  /\ l <= NRec /\ l' = l + 1
  /\ nchk' = IF e.ev = "pre" THEN nchk + 1 ELSE nchk
  /\ nrel' = IF e.ev = "pre" THEN nrel + e.n * (e.n - 1) * (Len(e.idx) + Len(e.aidx)) ELSE nrel
  /\ viol' = IF e.ev = "pre" /\ Len(viol) < 10 /\ Bad(e) # ""
             THEN Append(viol, [line |-> l, run |-> e.run, what |-> Bad(e), p |-> 0]) ELSE viol
Spec == Init /\ [][Next]_vars
Report == (l = NRec + 1) => JsonSerialize(IOEnv.OUT, [total |-> NRec, checked |-> nchk, relations |-> nrel, viol |-> viol])
=============================================================================

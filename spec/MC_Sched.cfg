SPECIFICATION Spec
CONSTANTS
  Cap = 1
  RecordHist = FALSE
  RHO = 1
  SSP = 1
  BFLOOR = 1
  BMAX = 2
  BT4 = 1000000
  BT3 = 2000000
INVARIANTS FifoMatch OneOutstanding QuiescentAtEnd NoEarlyReveal OutputPrivacy
PROPERTY Termination
CHECK_DEADLOCK TRUE
VIEW view

SPECIFICATION Spec
CONSTANTS
  C = 2
  MaxOps = 8
  SEEK = TRUE
  RecordHist = FALSE
INVARIANT FileComplete
INVARIANT WriteAtEnd
INVARIANT ItemsAgree
INVARIANT ChunkItemsAgree
INVARIANT BoundariesAgree
VIEW view
CHECK_DEADLOCK FALSE

------------------------------- MODULE MC_Sched -------------------------------
(***************************************************************************)
(* Exhaustive exploration of every interleaving of the parties' channel    *)
(* operations for one public configuration (read from JSON) with scaled    *)
(* constants: C12 (deadlock freedom on capacity-1/2/unbounded channels,    *)
(* FIFO label match, one outstanding operation per peer and direction),    *)
(* C04 (no reveal before all commitments of the round were received) and   *)
(* well-formedness of Program for C09.                                      *)
(***************************************************************************)
EXTENDS Skeleton, Sched, Json, IOUtils, TLC

CONSTANTS Cap,        \* channel capacity per ordered pair (0 = unbounded)
          RecordHist  \* TRUE: keep the schedule taken (for export to the replay driver)

CFG == JsonDeserialize(IOEnv.CFG)
Cfg == [n |-> CFG.n, pe |-> CFG.pe, po |-> CFG.po, circ |-> CFG.circ]
PartySet == 0 .. (Cfg.n - 1)
P == [p \in PartySet |-> Program(Cfg, p)]

VARIABLES pst, net, bad, leak, hist
vars == << pst, net, bad, leak, hist >>
view == << pst, net, bad, leak >>

Init == /\ pst = [p \in PartySet |-> FreshPst(P, p, 1)]
        /\ net = EmptyNet(PartySet)
        /\ bad = FALSE
        /\ leak = FALSE
        /\ hist = << >>

\* C05: a message to a party that has finished input processing (its program
\* counter is in the output phase) must be output opening material addressed
\* to an output party; opening material never goes to a non-output party
OutStart == [p \in PartySet |-> OutputStart(Cfg, p)]
Opening(ph) == ph \in {"output wire shares", "lambda"}
Leaks(p, op) ==
  \/ pst[op.q].g >= OutStart[op.q] /\ ~(Opening(op.ph) /\ InPo(Cfg, op.q))
  \/ Opening(op.ph) /\ ~InPo(Cfg, op.q)

Step(p, c) ==
  /\ Enabled(P, pst, net, Cap, p, c)
  /\ LET op == HeadOp(P, pst, p, c) IN
       /\ net' = NetAfter(net, p, op)
       /\ bad' = (bad \/ ~RecvMatches(net, p, op))
       /\ leak' = (leak \/ (op.d = "S" /\ Leaks(p, op)))
  /\ pst' = [pst EXCEPT ![p] = Advance(P, pst, p, c)]
  \* schedule step code: party * 100 + (10 if receive) + peer
  /\ hist' = IF RecordHist
             THEN Append(hist, p * 100 + (IF HeadOp(P, pst, p, c).d = "R" THEN 10 ELSE 0) + HeadOp(P, pst, p, c).q)
             ELSE hist

AllDone == \A p \in PartySet : Done(P, pst, p)

Next == \/ \E p \in PartySet : \E c \in 1..(IF Done(P, pst, p) THEN 0 ELSE Len(Group(P, pst, p))) : Step(p, c)
        \/ (AllDone /\ UNCHANGED vars)

Spec == Init /\ [][Next]_vars /\ WF_vars(Next)

\* for -simulate: no stuttering at the end, so each trace ends when all are done
StepNext == \E p \in PartySet : \E c \in 1..(IF Done(P, pst, p) THEN 0 ELSE Len(Group(P, pst, p))) : Step(p, c)
SimSpec == Init /\ [][StepNext]_vars
Export == AllDone => PrintT("REPLAY " \o ToJson(hist))

-----------------------------------------------------------------------------
FifoMatch == ~bad
OutputPrivacy == ~leak

\* within a group at most one chain talks to a given peer in a given direction
\* at any time => at most one send and one receive outstanding per peer
OneOutstanding ==
  \A p \in PartySet : ~Done(P, pst, p) =>
    \A c1, c2 \in 1..Len(Group(P, pst, p)) :
      (c1 # c2 /\ Live(P, pst, p, c1) /\ Live(P, pst, p, c2)) =>
        LET o1 == HeadOp(P, pst, p, c1)
            o2 == HeadOp(P, pst, p, c2) IN ~(o1.q = o2.q /\ o1.d = o2.d)

\* everything sent is eventually consumed: at the end all queues are empty
QuiescentAtEnd == AllDone => \A p, q \in PartySet : net[p][q] = << >>

\* C04(b): while a party can still send a reveal ("... ver", "fashare di_bi",
\* "flaand hash") no commitment of that round is still outstanding: the
\* commitments of the round are the most recent "comm" phase; they are
\* received in an earlier group, so it suffices that no "comm" receive of p
\* is live in the current group when a reveal send is live.
IsReveal(ph) == ph \in {"RNG ver", "fashare ver", "fashare di_bi", "flaand hash"}
IsCommit(ph) == ph \in {"RNG comm", "fashare comm", "flaand comm",
                        "broadcast RNG comm", "broadcast fashare comm", "broadcast flaand comm"}
NoEarlyReveal ==
  \A p \in PartySet : ~Done(P, pst, p) =>
    \A c1, c2 \in 1..Len(Group(P, pst, p)) :
      (Live(P, pst, p, c1) /\ Live(P, pst, p, c2)) =>
        ~(IsReveal(HeadOp(P, pst, p, c1).ph) /\ HeadOp(P, pst, p, c1).d = "S"
          /\ IsCommit(HeadOp(P, pst, p, c2).ph) /\ HeadOp(P, pst, p, c2).d = "R")

Termination == <>AllDone

\* the spec's own programs mirror each other: what p sends q, q receives
Flat(Pp) == LET RECURSIVE G(_) RECURSIVE Cn(_, _)
                Cn(g, c) == IF c > Len(g) THEN << >> ELSE g[c] \o Cn(g, c + 1)
                G(k) == IF k > Len(Pp) THEN << >> ELSE Cn(Pp[k], 1) \o G(k + 1)
            IN G(1)
Proj(p, d, q) == SelectSeq(Flat(P[p]), LAMBDA o : o.d = d /\ o.q = q)
Mirror ==
  \A p, q \in PartySet : p # q =>
    LET s == Proj(p, "S", q)
        r == Proj(q, "R", p) IN
    /\ Len(s) = Len(r)
    /\ \A k \in 1..Len(s) : s[k].ph = r[k].ph /\ s[k].len = r[k].len
ASSUME Mirror
=============================================================================

---------------------------- MODULE Trace_Server ----------------------------
(***************************************************************************)
(* Trace validation of the real server core against ServerCore.  The trace *)
(* is the driver's log: for each run a `cfg` line, then alternately a      *)
(* `step` line (the gate released / API call made) and an `obs` line       *)
(* (everything observable once the system has settled: parked gates, state *)
(* kind after the last handled command of each actor, results of API       *)
(* calls, notifications delivered, available permits, MPC traffic seen).   *)
(* A step must be the corresponding ServerCore action; the internal        *)
(* actions of ServerCore are silent; at every `obs` line the spec's state  *)
(* must agree with ALL observed fields.  All runs in one trace file share  *)
(* the scenario given by CFG.                                               *)
(***************************************************************************)
EXTENDS ServerCore, TraceBase

CFG == JsonDeserialize(IOEnv.CFG)
MCN == CFG.n
MCNC == Len(CFG.pol)
MCConc == CFG.conc
MCPol == CFG.pol
MCFaults == [cancel |-> 1000, rpcfail |-> 1000, stray |-> 1000]
MCFIX == CFG.fix

VARIABLE l
tvars == << vars, l >>

TInit == Init /\ l = 1
e == Rec[l]
act(s) == << s.c, s.p >>

Last(sq) == IF Len(sq) = 0 THEN "none" ELSE sq[Len(sq)]

\* parked gates as tuples << g, c, p, x, y >>
SpecParked ==
  { << "cmd", a[1], a[2], Head(cmdq[a]).t, 99 >> : a \in { b \in A : CmdGate(b) /\ Head(cmdq[b]).t \notin {"MsgBad", "MsgEarly", "MsgSelf"} } }
  \cup { << "rpc", r.c, r.from, r.k, r.to >> : r \in { x \in rpc : x.st = "parked" } }
  \cup { << "acq", a[1], a[2], "", 99 >> : a \in { b \in A : hpc[b].pc = "acq_gate" } }
  \cup { << "ctask", a[1], a[2], "", 99 >> : a \in { b \in A : ctask[b].st = "gate" } }
  \cup { << "mtask", a[1], a[2], "", 99 >> : a \in { b \in A : mtask[b] = "gate" } }
  \cup UNION { { << "out", a[1], a[2], outq[a][k].val, 99 >> : k \in 1..Len(outq[a]) } : a \in A }

ObsGate(s) ==
  << s.g, s.c, s.p,
     IF s.g = "cmd" THEN s.name ELSE IF s.g = "rpc" THEN s.k ELSE IF s.g = "out" THEN s.val ELSE "",
     IF s.g = "rpc" THEN s.to ELSE 99 >>
\* (a parked MPC message of a slow link has no counterpart: the specification runs the MPC protocol as one internal
\*  step once every party's task is running; releasing such a message is a stuttering step)
ObsParked(o) == { ObsGate(o.parked[k]) : k \in { j \in 1..Len(o.parked) : o.parked[j].g # "msg" } }

StrayStr(sq) == [k \in 1..Len(sq) |-> sq[k].cmd \o ":" \o sq[k].res]
NoPanicEntries(sq) == SelectSeq(sq, LAMBDA x : x.cmd # "PANIC")

ActorOk(x) ==
  LET a == << x.c, x.p >> IN
  /\ kind[a] = x.kind
  /\ sched[a] = Last(x.sched)
  /\ cancl[a] = Last(x.cancl)
  /\ [k \in 1..Len(x.outs) |-> x.outs[k].val] = outs[a]
  /\ x.strays = StrayStr(NoPanicEntries(strays[a]))

ObsOk(o) ==
  /\ \A k \in 1..Len(o.actors) : ActorOk(o.actors[k])
  /\ \A p \in Parties : sem[p] = o.sem[p + 1]
  /\ \A c \in Comps : msgs[c] = (o.msgs[c] > 0)
  /\ SpecParked = ObsParked(o)

\* stray MPC messages pass the driver's command gate without being parked
AutoCmd == \E a \in A : CmdGate(a) /\ Head(cmdq[a]).t \in {"MsgBad", "MsgEarly", "MsgSelf"} /\ DoCmd(a)

Silent == (Internal \/ AutoCmd) /\ UNCHANGED l

StepAction(s) ==
  CASE s.g = "api" /\ s.what = "schedule" -> CallSchedule(act(s))
    [] s.g = "api" /\ s.what = "cancel" -> CallCancel(act(s))
    [] s.g = "api" -> Inject(act(s), s.what)
    [] s.g = "cmd" -> CmdGate(act(s)) /\ Head(cmdq[act(s)]).t = s.name /\ DoCmd(act(s))
    [] s.g = "rpc" /\ s.mode = "deliver" -> DeliverRpc(Rpc(s.k, s.c, s.p, s.to, "parked"))
    [] s.g = "rpc" /\ s.mode = "fail" -> FailRpc(Rpc(s.k, s.c, s.p, s.to, "parked"))
    [] s.g = "acq" -> DoAcquire(act(s))
    [] s.g = "ctask" -> DoCtask(act(s))
    [] s.g = "mtask" -> DoMtask(act(s))
    [] s.g = "out" -> outq[act(s)] # << >> /\ Head(outq[act(s)]).val = s.val /\ DoOut(act(s))
    [] s.g = "msg" -> UNCHANGED vars

Consume ==
  /\ l <= NRec /\ l' = l + 1
  /\ CASE e.ev = "cfg" -> Commit(InitSt)
       [] e.ev = "step" -> StepAction(e.step)
       [] e.ev = "obs" -> ObsOk(e) /\ UNCHANGED vars
       [] OTHER -> UNCHANGED vars

TNext == Consume \/ Silent
TSpec == TInit /\ [][TNext]_tvars

\* furthest line consumed (register 1), for the verdict
Track == TLCSet(1, IF TLCGet(1) < l THEN l ELSE TLCGet(1))
ASSUME TLCSet(1, 0)
Accepted ==
  LET reached == TLCGet(1) - 1 IN
  JsonSerialize(IOEnv.OUT,
    [total |-> NRec, consumed |-> reached,
     first_unmatched |-> IF reached < NRec THEN Rec[reached + 1] ELSE [ev |-> "none"]])
=============================================================================

------------------------------- MODULE FileBuf -------------------------------
(***************************************************************************)
(* FileOrMemBuf (src/utils/file_or_mem_buf.rs): a chunked append-only      *)
(* buffer that lives in memory or in a temporary file, with item-wise and  *)
(* chunk-wise readers.  Items are the naturals 1, 2, 3, ... in the order   *)
(* they are appended, so a buffer is described by chunk sizes alone.       *)
(*                                                                          *)
(* File variant as the code has it: a BufWriter and every reader share ONE *)
(* OS file offset (`off`, counted in chunks).  iter()/chunks() flush the    *)
(* writer and rewind; a reader's BufReader reads ahead, moving the offset   *)
(* anywhere up to the end; dropping a reader seeks to the end (SEEK), so    *)
(* that the next flush appends.  A flush at off < end overwrites the chunks *)
(* from there.  The borrow checker orders the operations: no append while  *)
(* a reader is alive.                                                       *)
(* Memory variant: one vector; chunks(size) re-chunks it by `size`.         *)
(***************************************************************************)
EXTENDS Naturals, Sequences, FiniteSets, TLC

CONSTANTS C,        \* the chunk size the engine would use (and_share_batch_size)
          MaxOps,   \* bound on the number of operations
          SEEK,     \* TRUE: a dropped reader seeks to the end (as the code does)
          RecordHist \* TRUE: keep the whole operation history (for export to the replay driver)

VARIABLES mem,      \* memory variant: number of items
          disk,     \* file variant: sizes of the chunks in the file
          wb,       \* file variant: sizes of chunks still in the BufWriter
          off,      \* shared OS offset, in chunks from the start of the file
          rd,       \* live reader: [k: "none"|"iter"|"chunks", ci, cur, mpos, size]
          hist,     \* operations so far with the values returned by (memory, file)
          last,     \* the last operation with its returns
          nops,     \* number of operations so far
          apps      \* [n, full, lastk]: appends so far, all but the last had size C, size of the last
vars == << mem, disk, wb, off, rd, hist, last, nops, apps >>
view == << mem, disk, wb, off, rd, last, nops, apps >>

NoReader == [k |-> "none", ci |-> 0, cur |-> << >>, mpos |-> 0, size |-> 0]

Init == /\ mem = 0 /\ disk = << >> /\ wb = << >> /\ off = 0 /\ rd = NoReader /\ hist = << >>
        /\ last = [op |-> "init", k |-> 0, m |-> << >>, f |-> << >>] /\ nops = 0
        /\ apps = [n |-> 0, full |-> TRUE, lastk |-> 0]

RECURSIVE Sum(_, _)
Sum(s, k) == IF k = 0 THEN 0 ELSE s[k] + Sum(s, k - 1)
\* items of chunk j of a chunk-size sequence
ChunkItems(s, j) == [i \in 1..s[j] |-> Sum(s, j - 1) + i]

\* the writer's buffer reaches the file at the current offset
Flushed == IF wb = << >> THEN disk ELSE SubSeq(disk, 1, off) \o wb

Rec(op, k, m, f) == [op |-> op, k |-> k, m |-> m, f |-> f]
Log(r) == /\ hist' = IF RecordHist THEN Append(hist, r) ELSE hist
          /\ last' = r /\ nops' = nops + 1
Budget == nops < MaxOps

DoAppend(k) ==
  /\ rd.k = "none" /\ Budget
  /\ mem' = mem + k
  /\ wb' = Append(wb, k)
  /\ Log(Rec("append", k, << >>, << >>))
  /\ apps' = [n |-> apps.n + 1, full |-> apps.full /\ (apps.n = 0 \/ apps.lastk = C), lastk |-> k]
  /\ UNCHANGED << disk, off, rd >>

Open(kind, size) ==
  /\ rd.k = "none" /\ Budget
  /\ disk' = Flushed /\ wb' = << >>
  /\ off' = 0                                         \* rewind
  /\ rd' = [k |-> kind, ci |-> 1, cur |-> << >>, mpos |-> 0, size |-> size]
  /\ Log(Rec(kind, size, << >>, << >>))
  /\ UNCHANGED << mem, apps >>

\* item-wise: memory returns item mpos+1; the file reader decodes the next
\* chunk when the current one is used up (reading ahead as far as it likes)
Next ==
  /\ rd.k = "iter" /\ Budget
  /\ LET mret == IF rd.mpos < mem THEN << rd.mpos + 1 >> ELSE << >> IN
     IF rd.cur # << >>
     THEN /\ rd' = [rd EXCEPT !.cur = Tail(@), !.mpos = IF rd.mpos < mem THEN @ + 1 ELSE @]
          /\ Log(Rec("next", 0, mret, << Head(rd.cur) >>))
          /\ UNCHANGED off
     ELSE IF rd.ci <= Len(disk)
     THEN /\ \E o \in rd.ci..Len(disk) : off' = o
          /\ rd' = [rd EXCEPT !.cur = Tail(ChunkItems(disk, rd.ci)), !.ci = @ + 1,
                              !.mpos = IF rd.mpos < mem THEN @ + 1 ELSE @]
          /\ Log(Rec("next", 0, mret, << ChunkItems(disk, rd.ci)[1] >>))
     ELSE /\ rd' = [rd EXCEPT !.mpos = IF rd.mpos < mem THEN @ + 1 ELSE @]
          /\ Log(Rec("next", 0, mret, << >>))
          /\ UNCHANGED off
  /\ UNCHANGED << mem, disk, wb, apps >>

Min(a, b) == IF a < b THEN a ELSE b
NextChunk ==
  /\ rd.k = "chunks" /\ Budget
  /\ LET mret == IF rd.mpos < mem THEN [i \in 1..Min(rd.size, mem - rd.mpos) |-> rd.mpos + i] ELSE << >>
         fret == IF rd.ci <= Len(disk) THEN ChunkItems(disk, rd.ci) ELSE << >> IN
     /\ Log(Rec("nextchunk", 0, mret, fret))
     /\ rd' = [rd EXCEPT !.mpos = @ + Len(mret), !.ci = IF rd.ci <= Len(disk) THEN @ + 1 ELSE @]
     /\ IF rd.ci <= Len(disk) THEN \E o \in rd.ci..Len(disk) : off' = o ELSE UNCHANGED off
  /\ UNCHANGED << mem, disk, wb, apps >>

Drop ==
  /\ rd.k # "none" /\ Budget
  /\ off' = IF SEEK THEN Len(disk) ELSE off
  /\ Log(Rec(IF rd.k = "iter" THEN "dropiter" ELSE "dropchunks", 0, << >>, << >>))
  /\ rd' = NoReader
  /\ UNCHANGED << mem, disk, wb, apps >>

NextStep == (\E k \in 1..(3 * C) : DoAppend(k)) \/ Open("iter", 0) \/ Open("chunks", C) \/ Next \/ NextChunk \/ Drop
Spec == Init /\ [][NextStep]_vars

-----------------------------------------------------------------------------
\* the file never loses or reorders what was appended
FileComplete == Sum(Flushed, Len(Flushed)) = mem
\* every flush happens with the offset at the end of the file
WriteAtEnd == wb # << >> => off = Len(disk)

\* item-wise reads agree
ItemsAgree == last.op = "next" => last.m = last.f

\* chunk-wise reads return the same items in the same order (each variant
\* returns consecutive items from its own position: compare the positions)
FilePos == Sum(disk, rd.ci - 1)
ChunkItemsAgree ==
  last.op = "nextchunk" =>
    /\ (last.m # << >> => last.m[Len(last.m)] = rd.mpos)
    /\ (last.f # << >> => last.f[Len(last.f)] = FilePos)
    /\ (last.m = << >> => rd.mpos = mem) /\ (last.f = << >> => FilePos = mem)
\* ... and the same boundaries when all appends but the last had the requested size
BoundariesAgree ==
  (last.op = "nextchunk" /\ apps.full /\ apps.lastk <= C) => last.m = last.f
=============================================================================

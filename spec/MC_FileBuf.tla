----------------------------- MODULE MC_FileBuf -----------------------------
EXTENDS FileBuf, Json
\* one line per behaviour that used all its operations
Export == nops = MaxOps => PrintT("REPLAY " \o ToJson([k \in 1..Len(hist) |-> [op |-> hist[k].op, k |-> hist[k].k]]))
=============================================================================

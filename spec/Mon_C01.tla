------------------------------- MODULE Mon_C01 -------------------------------
(***************************************************************************)
(* Property monitor for C01 (and the outcome clause of C12 / C19): in an    *)
(* honest run over reliable channels every party returns Ok; a party in    *)
(* the output set returns ClearEval(circuit, all inputs) in output order    *)
(* with duplicates; every other party returns the empty vector; no         *)
(* temporary file is left behind.  Reads only cfg / res / end lines.        *)
(* Constrains nothing else, so any implementation with this behaviour      *)
(* passes.                                                                  *)
(***************************************************************************)
EXTENDS Circuit, TraceBase

VARIABLES l, cur, viol, nres
vars == << l, cur, viol, nres >>

Init == l = 1 /\ cur = [run |-> "none"] /\ viol = << >> /\ nres = 0

r == Rec[l]

InPo(p) == \E k \in 1..Len(cur.po) : cur.po[k] = p

Bad ==
  IF r.ev = "res" THEN
    IF r.kind # "ok" THEN "party did not return Ok: " \o r.kind \o " " \o r.err
    ELSE IF InPo(r.p) THEN
           (IF r.out = cur.expect THEN "" ELSE "output party returned wrong bits")
         ELSE (IF r.out = << >> THEN "" ELSE "non-output party returned a non-empty vector")
  ELSE IF r.ev = "end" THEN
    (IF r.tmpleft # 0 THEN "temporary files left behind" ELSE "")
  ELSE ""

Next ==
  /\ l <= NRec /\ l' = l + 1
  /\ cur' = IF r.ev = "cfg"
            THEN [run |-> r.run, po |-> r.po, expect |-> ClearEval(r.circ, r.inputs)]
            ELSE cur
  /\ nres' = IF r.ev = "res" THEN nres + 1 ELSE nres
  /\ viol' = IF r.ev # "cfg" /\ Bad # "" /\ Len(viol) < 5
             THEN Append(viol, [line |-> l, run |-> cur.run, what |-> Bad, p |-> IF Has(r, "p") THEN r.p ELSE 0 - 1])
             ELSE viol

Spec == Init /\ [][Next]_vars

Report == (l = NRec + 1) =>
  JsonSerialize(IOEnv.OUT, [total |-> NRec, checked |-> nres, viol |-> viol])
=============================================================================

-------------------------------- MODULE Sched --------------------------------
(***************************************************************************)
(* Parties executing their Program over per-ordered-pair FIFO channels.    *)
(* State: pst[p] = progress of party p through its program,                *)
(*        net[p][q] = queue of messages in flight from p to q.             *)
(* The operators take the programs P (a function party -> program) as an  *)
(* argument so that the model checker (P constant) and the trace spec (P a *)
(* variable reset per recorded run) share them.                            *)
(***************************************************************************)
EXTENDS Naturals, Sequences, FiniteSets

Done(P, ps, p) == ps[p].g > Len(P[p])
Group(P, ps, p) == P[p][ps[p].g]
Live(P, ps, p, c) == ps[p].pos[c] < Len(Group(P, ps, p)[c])
HeadOp(P, ps, p, c) == Group(P, ps, p)[c][ps[p].pos[c] + 1]

FreshPst(P, p, g) ==
  [g |-> g,
   pos |-> IF g <= Len(P[p]) THEN [c \in 1..Len(P[p][g]) |-> 0] ELSE << >>,
   st  |-> IF g <= Len(P[p]) THEN [c \in 1..Len(P[p][g]) |-> FALSE] ELSE << >>]

\* party state after chain c of party p completed its head operation
Advance(P, ps, p, c) ==
  LET g == Group(P, ps, p)
      npos == [ps[p].pos EXCEPT ![c] = @ + 1]
      gdone == \A d \in 1..Len(g) : npos[d] = Len(g[d]) IN
  IF gdone THEN FreshPst(P, p, ps[p].g + 1)
  ELSE [ps[p] EXCEPT !.pos = npos, !.st[c] = FALSE]

Msg(op) == [ph |-> op.ph, len |-> op.len]

\* Cap = 0 means unbounded
CanSend(nt, Cap, p, q) == Cap = 0 \/ Len(nt[p][q]) < Cap
CanRecv(nt, p, q) == Len(nt[q][p]) > 0

\* the network after p completed op
NetAfter(nt, p, op) ==
  IF op.d = "S" THEN [nt EXCEPT ![p][op.q] = Append(@, Msg(op))]
  ELSE [nt EXCEPT ![op.q][p] = Tail(@)]

\* an operation may complete
Enabled(P, ps, nt, Cap, p, c) ==
  /\ ~Done(P, ps, p)
  /\ c \in 1..Len(Group(P, ps, p))
  /\ Live(P, ps, p, c)
  /\ LET op == HeadOp(P, ps, p, c) IN
       IF op.d = "S" THEN CanSend(nt, Cap, p, op.q) ELSE CanRecv(nt, p, op.q)

\* FIFO label match: the message a receive consumes is the one it expects
RecvMatches(nt, p, op) == op.d = "R" => Head(nt[op.q][p]) = Msg(op)

EmptyNet(Parties) == [p \in Parties |-> [q \in Parties |-> << >>]]
=============================================================================

----------------------------- MODULE Mon_Server -----------------------------
(***************************************************************************)
(* Property monitors for the server core (C13 - C17) over the driver's log *)
(* of runs of the REAL state machines.  Only what the properties state is  *)
(* constrained: results of schedule()/cancel()/stray calls, notifications   *)
(* delivered to the output destination (and their value), actors stopped,  *)
(* panics, MPC traffic seen, available permits.  Nothing here depends on   *)
(* ServerCore.tla, so an implementation organised differently but with the *)
(* stated behaviour passes.  Each violation names its property.            *)
(*                                                                          *)
(*  cfg.tag.expect = "happy": the run contains no fault other than stray   *)
(*  commands, so it must end like a fault-free run (C13, C14).             *)
(***************************************************************************)
EXTENDS TraceBase, FiniteSets

VARIABLES l, cur, prev, ck, acqd, failed, viol, nchk
vars == << l, cur, prev, ck, acqd, failed, viol, nchk >>

Init == /\ l = 1 /\ cur = [run |-> "none"] /\ prev = [ev |-> "none"] /\ ck = << >> /\ acqd = {}
        /\ failed = {} /\ viol = << >> /\ nchk = 0

e == Rec[l]
Last(sq) == IF Len(sq) = 0 THEN "none" ELSE sq[Len(sq)]

N == cur.scen.n
NC == Len(cur.scen.pol)
Parties == 0 .. (N - 1)
Comps == 1 .. NC
Pol(c, p) == cur.scen.pol[c][p + 1]
Leader(c) == Pol(c, 0).leader \* as seen by party 0
TrueLeader(c) == CHOOSE q \in Parties : Pol(c, q).leader = q   \* the party that regards itself as leader
IsLeader(c, p) == Pol(c, p).leader = p
Actor(o, c, p) == CHOOSE x \in { o.actors[k] : k \in 1..Len(o.actors) } : x.c = c /\ x.p = p

RECURSIVE SumTo(_, _)
SumTo(f(_), k) == IF k < 0 THEN 0 ELSE f(k) + SumTo(f, k - 1)
\* program "A" (and its line-break variant): the sum of all inputs and constants; program "M": the sum plus the low six
\* bits of the chain t := t * (x_q + 1) mod 251 (16 rounds, cycling through the parties, starting from 1)
RECURSIVE Chain(_, _, _)
Chain(c, r, t) == IF r = 16 THEN t ELSE Chain(c, r + 1, (t * (cur.inputs[c][(r % N) + 1] + 1)) % 251)
Expected(c) ==
  LET term(p) == cur.inputs[c][p + 1] + (IF Pol(c, p).consts THEN cur.cvals[c][p + 1] ELSE 0)
      sum == SumTo(term, N - 1) IN
  IF Pol(c, TrueLeader(c)).prog = "M" THEN (sum + (Chain(c, 0, 1) % 64)) % 256 ELSE sum % 256

Mismatch(c) == \E p \in Parties : Pol(c, p).prog # Pol(c, TrueLeader(c)).prog \/ Pol(c, p).leader # TrueLeader(c)
IllTyped(c) == \E p \in Parties : ~Pol(c, p).typed

OutVals(x) == [k \in 1..Len(x.outs) |-> x.outs[k].val]
Ended(o, c, p) ==
  LET x == Actor(o, c, p) IN
  \/ x.kind = "Stopped" \/ x.outs # << >>
  \/ \E k \in 1..Len(o.parked) : o.parked[k].g = "cmd" /\ o.parked[k].c = c /\ o.parked[k].p = p /\ o.parked[k].name = "Stop"

V(prop, what, c, p) == [prop |-> prop, what |-> what, c |-> c, p |-> p]

\* ---- checks at every observation ----------------------------------------
ObsViol(o) ==
  { V(IF cur.tag.expect = "happy" THEN "C13" ELSE "C17", "more than one notification delivered to an output destination", x.c, x.p) :
      x \in { y \in { o.actors[k] : k \in 1..Len(o.actors) } : Len(y.outs) > 1 } }
  \cup
  { V("C13", "notification delivered for a party without output destination", x.c, x.p) :
      x \in { y \in { o.actors[k] : k \in 1..Len(o.actors) } : y.outs # << >> /\ ~Pol(y.c, y.p).out } }
  \cup
  { V("C15", "cancel returned Ok but the state machine has not stopped", x.c, x.p) :
      x \in { y \in { o.actors[k] : k \in 1..Len(o.actors) } : Last(y.cancl) = "ok" /\ y.kind # "Stopped" } }
  \cup
  { V("C15", "cancel returned Ok: output destination must have exactly one notification, has "
             \o ToString(Len(x.outs)), x.c, x.p) :
      x \in { y \in { o.actors[k] : k \in 1..Len(o.actors) } :
                Last(y.cancl) = "ok" /\ Pol(y.c, y.p).out
                \* (a state machine cancelled before it was given a policy knows no destination; "" = the cancel never
                \*  passed the command gate, i.e. it was answered from inside another handler: the policy is known then)
                /\ ck[<< y.c, y.p >>] \notin {"Init", "ValidateRequested"} /\ Last(y.sched) # "none"
                /\ Len(y.outs) # 1 } }
  \cup
  { V("C15", "cancel returned Ok at a leader but its concurrency permit is not available", x.c, x.p) :
      x \in { y \in { o.actors[k] : k \in 1..Len(o.actors) } :
                NC = 1 /\ Last(y.cancl) = "ok" /\ IsLeader(y.c, y.p) /\ o.sem[y.p + 1] # cur.scen.conc[y.p + 1] } }
  \cup
  { V("C16", "MPC protocol messages exchanged for incompatible policies", c, 0) :
      c \in { d \in Comps : (Mismatch(d) \/ IllTyped(d)) /\ o.msgs[d] > 0 } }
  \cup
  { V("C16", "successful result delivered although policies are incompatible", x.c, x.p) :
      x \in { y \in { o.actors[k] : k \in 1..Len(o.actors) } :
                Mismatch(y.c) /\ \E k \in 1..Len(y.outs) : y.outs[k].val = "ok" } }
  \cup
  { V("C17", "party leads more computations at once than its concurrency allows", 0, p) :
      p \in { q \in Parties :
                Cardinality({ a \in acqd : a[2] = q /\ ~Ended(o, a[1], a[2]) }) > cur.scen.conc[q + 1] } }
  \cup
  { V("C17", "more permits available than the configured concurrency", 0, p) :
      p \in { q \in Parties : o.sem[q + 1] > cur.scen.conc[q + 1] } }

\* ---- checks at the end of a run (on the last observation) ----------------
Happy(o, x) ==
  /\ Last(x.sched) = "ok"
  /\ x.kind = "Stopped"
  /\ IF Pol(x.c, x.p).out
     THEN Len(x.outs) = 1 /\ x.outs[1].val = "ok" /\ x.outs[1].num = Expected(x.c)
     ELSE x.outs = << >>

AllActors(o) == { o.actors[k] : k \in 1..Len(o.actors) }

StrayOk(str) == \* "Kind:res" with res = ok means the stray command was accepted (a premature run request at the
                \* leader, "RunEarly", is valid by the time it is handled and may be accepted; the end-of-run rules apply)
  LET n == Len(str) IN n >= 3 /\ SubSeq(str, n - 2, n) = ":ok" /\ ~(n >= 8 /\ SubSeq(str, 1, 8) = "RunEarly")

EndViol(o, en) ==
  (IF cur.tag.expect = "happy"
   THEN { V(IF cur.scen.faults.stray > 0 THEN "C14" ELSE "C13",
            "run did not end with Ok schedule, exactly one correct result and a stopped state machine: sched="
            \o Last(x.sched) \o " kind=" \o x.kind \o " outs=" \o ToString(OutVals(x)), x.c, x.p) :
            x \in { y \in AllActors(o) : ~Happy(o, y) } }
        \cup { V(IF cur.scen.faults.stray > 0 THEN "C14" ELSE "C13", "concurrency permit not released at the end", 0, p) :
                 p \in { q \in Parties : o.sem[q + 1] # cur.scen.conc[q + 1] } }
   ELSE {})
  \cup
  { V("C14", "state machine panicked", j.c, j.p) : j \in { y \in { en.joins[k] : k \in 1..Len(en.joins) } : y.join = "panic" } }
  \cup
  { V("C14", "stray command was answered Ok: " \o x.strays[1], x.c, x.p) :
      x \in { y \in AllActors(o) : \E k \in 1..Len(y.strays) : StrayOk(y.strays[k]) } }
  \cup
  { V("C16", "schedule of an incompatible policy did not end with an error", x.c, x.p) :
      x \in { y \in AllActors(o) :
                /\ Last(y.sched) \in {"ok", "called"}
                /\ \/ ~Pol(y.c, y.p).typed
                   \/ Mismatch(y.c) /\ (y.p = TrueLeader(y.c)
                                        \/ Pol(y.c, y.p).prog # Pol(y.c, TrueLeader(y.c)).prog
                                        \/ Pol(y.c, y.p).leader # TrueLeader(y.c)) } }
  \cup
  { V("C17", "all policies have ended but not every permit is available again", 0, p) :
      p \in { q \in Parties :
                /\ \A y \in AllActors(o) : y.kind = "Stopped" \/ Last(y.sched) = "none"
                /\ o.sem[q + 1] # cur.scen.conc[q + 1] } }
  \cup
  \* (single computation: the only possible holder of the party's permit is this policy)
  { V("C17", "cancel was invoked and nothing can move any more, but the policy has not ended and the leader's permit is still taken"
             \o " (cancel handled in state " \o ck[<< x.c, x.p >>] \o ", "
             \o ToString(Cardinality({ y \in AllActors(o) : y.cancl # << >> })) \o " parties cancelling)", x.c, x.p) :
      x \in { y \in AllActors(o) : /\ NC = 1 /\ Last(y.cancl) = "called" /\ o.parked = << >>
                                   /\ IsLeader(y.c, y.p) /\ o.sem[y.p + 1] # cur.scen.conc[y.p + 1] } }
  \cup
  \* cancel() always returns (C15Liveness on the model): a call still pending when nothing can move never will
  { V("C15", "cancel() was invoked and nothing can move any more, but the call has not returned (handled in state "
             \o ck[<< x.c, x.p >>] \o ")", x.c, x.p) :
      x \in { y \in AllActors(o) : Last(y.cancl) = "called" /\ o.parked = << >> } }
  \cup
  { V("C17", "a " \o f[3] \o " call to a peer failed but the policy did not end at the caller", f[1], f[2]) :
      f \in { g \in failed : Actor(o, g[1], g[2]).kind # "Stopped" } }
  \cup
  { V("C17", "a " \o f[3] \o " call to a peer failed but the output destination got no error notification", f[1], f[2]) :
      f \in { g \in failed : /\ g[3] \in {"run", "consts"} /\ Pol(g[1], g[2]).out
                             /\ Actor(o, g[1], g[2]).kind = "Stopped"
                             /\ Actor(o, g[1], g[2]).outs = << >>
                             /\ Last(Actor(o, g[1], g[2]).cancl) # "ok" } }
  \cup
  \* the MPC task has delivered its notification (result or MPC error): the policy has ended by success or MPC error;
  \* once nothing can move any more the state machine must have stopped, and (single computation) its leader's
  \* permit must be back
  { V("C17", "the policy ended by " \o (IF Last(x.outs).val = "ok" THEN "success" ELSE "an MPC error")
             \o " (notification delivered) and nothing can move, but "
             \o (IF x.kind # "Stopped" THEN "the state machine has not stopped (state " \o x.kind \o ")"
                 ELSE "the permit is still taken"), x.c, x.p) :
      x \in { y \in AllActors(o) : /\ o.parked = << >> /\ y.outs # << >> /\ Last(y.outs).val \in {"ok", "mpcerr"}
                                   /\ \/ y.kind # "Stopped"
                                      \/ NC = 1 /\ IsLeader(y.c, y.p) /\ o.sem[y.p + 1] # cur.scen.conc[y.p + 1] } }
  \cup
  { V("C17", "caller's permit not returned after a failed call to a peer", f[1], f[2]) :
      f \in { g \in failed : /\ \A c \in Comps : IsLeader(c, g[2]) => Actor(o, c, g[2]).kind = "Stopped"
                             /\ o.sem[g[2] + 1] # cur.scen.conc[g[2] + 1] } }

SetToSeq(S) == LET RECURSIVE F(_) F(T) == IF T = {} THEN << >> ELSE LET x == CHOOSE y \in T : TRUE IN << x >> \o F(T \ {x}) IN F(S)

Known == { [prop |-> viol[k].prop, what |-> viol[k].what, c |-> viol[k].c, p |-> viol[k].p] :
             k \in { j \in 1..Len(viol) : viol[j].run = cur.run } }
\* On the multi-thread runtime an observation may be taken while another thread is between two effects
\* (e.g. cancel() answered, actor not yet marked stopped): there the per-observation rules are applied to the
\* final observation only; on the current-thread runtime (deterministic) to every observation.
NewViol ==
  (IF e.ev = "obs" /\ cur.runtime = "current" THEN ObsViol(e)
   ELSE IF e.ev = "end" /\ prev.ev = "obs" THEN EndViol(prev, e) \cup (IF cur.runtime # "current" THEN ObsViol(prev) ELSE {})
   ELSE {}) \ Known

Next ==
  /\ l <= NRec /\ l' = l + 1
  /\ cur' = IF e.ev = "cfg" THEN e ELSE cur
  /\ prev' = IF e.ev = "obs" THEN e ELSE IF e.ev = "cfg" THEN [ev |-> "none"] ELSE prev
  /\ ck' = IF e.ev = "cfg" THEN [a \in (1..Len(e.scen.pol)) \X (0..(e.scen.n - 1)) |-> ""]
           ELSE IF e.ev = "step" /\ e.step.g = "cmd" /\ e.step.name = "Cancel" /\ prev.ev = "obs"
                THEN [ck EXCEPT ![<< e.step.c, e.step.p >>] = Actor(prev, e.step.c, e.step.p).kind]
           ELSE ck
  /\ acqd' = IF e.ev = "cfg" THEN {}
             ELSE IF e.ev = "obs"
                  THEN acqd \cup { << e.parked[k].c, e.parked[k].p >> :
                                   k \in { j \in 1..Len(e.parked) : e.parked[j].g = "rpc" /\ e.parked[j].k = "run" } }
             ELSE acqd
  \* validate / run / consts calls that returned an error to their caller
  \* (injected transport failure, peer stopped, or peer answered with an error)
  /\ failed' = IF e.ev = "cfg" THEN {}
               ELSE IF e.ev = "obs"
                    THEN failed \cup { << e.rpcfail[k].c, e.rpcfail[k].p, e.rpcfail[k].k >> : k \in 1..Len(e.rpcfail) }
               ELSE failed
  /\ nchk' = IF e.ev \in {"obs", "end"} THEN nchk + 1 ELSE nchk
  /\ viol' = IF e.ev # "cfg" /\ NewViol # {} /\ Len(viol) < 40
             THEN viol \o [k \in 1..Cardinality(NewViol) |->
                             LET v == SetToSeq(NewViol)[k] IN
                             [line |-> l, run |-> cur.run, prop |-> v.prop, what |-> v.what, c |-> v.c, p |-> v.p]]
             ELSE viol

Spec == Init /\ [][Next]_vars
Report == (l = NRec + 1) =>
  JsonSerialize(IOEnv.OUT, [total |-> NRec, checked |-> nchk, viol |-> viol])
=============================================================================

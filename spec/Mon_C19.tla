------------------------------- MODULE Mon_C19 -------------------------------
(***************************************************************************)
(* Property monitor for C19 over replays of operation scripts on the real  *)
(* FileOrMemBuf<u64> in both variants (items are 1, 2, 3, ... in append    *)
(* order).  For every script:                                               *)
(*  - neither variant panics or reports an error, no file is left behind;  *)
(*  - item-wise reads of both variants return exactly the items appended   *)
(*    so far, in order, then "none";                                        *)
(*  - chunk-wise reads of both variants return the appended items in order *)
(*    without gaps or repeats, ending exactly when all items are read;      *)
(*  - when all appends but the last had the requested chunk size (and the   *)
(*    last is not larger), both variants return the same chunk boundaries.  *)
(***************************************************************************)
EXTENDS TraceBase, FiniteSets

VARIABLES l, viol, nchk
vars == << l, viol, nchk >>
Init == l = 1 /\ viol = << >> /\ nchk = 0
e == Rec[l]

Consec(from, len) == [i \in 1..len |-> from + i]

\* walk the script; st = [tot, rk, mpos, fpos, full, lastk, napp, bad]
RECURSIVE Walk(_, _, _)
Walk(r, j, st) ==
  IF j > Len(r.ops) \/ st.bad # "" THEN st
  ELSE
  LET o == r.ops[j]
      m == r.mem[j]
      f == r.file[j]
      at == "op " \o ToString(j) \o " (" \o o.op \o "): " IN
  CASE o.op = "append" ->
         Walk(r, j + 1, [st EXCEPT !.tot = @ + o.k, !.napp = @ + 1,
                                   !.full = st.full /\ (st.napp = 0 \/ st.lastk = r.c), !.lastk = o.k])
    [] o.op \in {"iter", "chunks"} -> Walk(r, j + 1, [st EXCEPT !.rk = o.op, !.mpos = 0, !.fpos = 0])
    [] o.op \in {"dropiter", "dropchunks"} -> Walk(r, j + 1, [st EXCEPT !.rk = "none"])
    [] o.op = "next" ->
         LET exp == IF st.mpos < st.tot THEN << st.mpos + 1 >> ELSE << >> IN
         IF m # exp THEN [st EXCEPT !.bad = at \o "memory variant returned " \o ToString(m) \o ", expected " \o ToString(exp)]
         ELSE IF f # exp THEN [st EXCEPT !.bad = at \o "file variant returned " \o ToString(f) \o ", expected " \o ToString(exp)]
         ELSE Walk(r, j + 1, [st EXCEPT !.mpos = IF st.mpos < st.tot THEN @ + 1 ELSE @])
    [] o.op = "nextchunk" ->
         IF m # Consec(st.mpos, Len(m)) \/ (m = << >>) # (st.mpos = st.tot) \/ st.mpos + Len(m) > st.tot
           THEN [st EXCEPT !.bad = at \o "memory variant returned " \o ToString(m) \o " at position " \o ToString(st.mpos) \o " of " \o ToString(st.tot)]
         ELSE IF f # Consec(st.fpos, Len(f)) \/ (f = << >>) # (st.fpos = st.tot) \/ st.fpos + Len(f) > st.tot
           THEN [st EXCEPT !.bad = at \o "file variant returned " \o ToString(f) \o " at position " \o ToString(st.fpos) \o " of " \o ToString(st.tot)]
         ELSE IF st.full /\ st.lastk <= r.c /\ m # f
           THEN [st EXCEPT !.bad = at \o "chunk boundaries differ: memory " \o ToString(m) \o " file " \o ToString(f)]
         ELSE Walk(r, j + 1, [st EXCEPT !.mpos = @ + Len(m), !.fpos = @ + Len(f)])
    [] OTHER -> [st EXCEPT !.bad = at \o "unknown operation"]

Bad(r) ==
  IF r.panic THEN "panic"
  ELSE IF r.mem_err # << >> THEN "memory variant: " \o r.mem_err[1]
  ELSE IF r.file_err # << >> THEN "file variant: " \o r.file_err[1]
  ELSE IF r.left # 0 THEN "files left in the temporary directory"
  ELSE IF Len(r.mem) # Len(r.ops) \/ Len(r.file) # Len(r.ops) THEN "wrong number of results"
  ELSE Walk(r, 1, [tot |-> 0, rk |-> "none", mpos |-> 0, fpos |-> 0, full |-> TRUE, lastk |-> 0, napp |-> 0, bad |-> ""]).bad

Next ==
  /\ l <= NRec /\ l' = l + 1
  /\ nchk' = IF e.ev = "buf" THEN nchk + 1 ELSE nchk
  /\ viol' = IF e.ev = "buf" /\ Len(viol) < 10 /\ Bad(e) # ""
             THEN Append(viol, [line |-> l, run |-> e.run, what |-> Bad(e), p |-> 0])
             ELSE viol
Spec == Init /\ [][Next]_vars
Report == (l = NRec + 1) => JsonSerialize(IOEnv.OUT, [total |-> NRec, checked |-> nchk, viol |-> viol])
=============================================================================

----------------------------- MODULE MC_MpcArgs -----------------------------
EXTENDS MpcArgs, IOUtils
MCFIXV == JsonDeserialize(IOEnv.CFG)
=============================================================================

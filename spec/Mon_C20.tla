------------------------------- MODULE Mon_C20 -------------------------------
(* C20: recorded inputs/outputs of both code paths of every primitive are  *)
(* checked against the definitions of Prims.tla.                            *)
EXTENDS TraceBase, Prims

VARIABLES l, viol, nchk
vars == << l, viol, nchk >>
Init == l = 1 /\ viol = << >> /\ nchk = 0
e == Rec[l]

Bad(r) ==
  CASE r.ev = "transpose" ->
         IF r.panic THEN "transpose panicked on an accepted shape"
         ELSE IF ~r.same THEN "dispatching and portable transpose differ"
         ELSE IF r.pc_in # r.pc_d \/ r.pc_in # r.pc_p THEN "transpose changes the number of set bits"
         ELSE IF \E k \in 1..Len(r.bits) : ~TrOk(r.bits[k]) THEN "output bit (j,i) differs from input bit (i,j)"
         ELSE ""
    [] r.ev = "clmul" ->
         IF r.lo_d # r.lo_s \/ r.hi_d # r.hi_s THEN "dispatching and scalar clmul differ"
         ELSE IF ~ClmulOk(r.a, r.b, r.lo_d, r.hi_d) THEN "clmul is not the polynomial product over GF(2)"
         ELSE ""
    [] r.ev = "hash" ->
         IF ~CrOk(r.x, r.pi_x, r.cr) THEN "cr hash is not pi(x) XOR x"
         ELSE IF ~TccrOk(r.pi_x, r.pi_pix_t, r.tccr) THEN "tccr hash is not pi(pi(x) XOR t) XOR pi(x)"
         ELSE ""
    [] r.ev = "rng" ->
         IF Len(r.lens) = 1 /\ ~CtrOk(r.outs[1], r.keystream) THEN "generator output is not the AES counter-mode keystream"
         ELSE IF \E k \in 1..Len(r.lens) : Len(r.outs[k]) # r.lens[k] THEN "generator returned a wrong number of bytes"
         ELSE ""
    [] OTHER -> ""

Next ==
  /\ l <= NRec /\ l' = l + 1
  /\ nchk' = nchk + 1
  /\ viol' = IF Len(viol) < 10 /\ Bad(e) # ""
             THEN Append(viol, [line |-> l, run |-> e.run, what |-> Bad(e), p |-> 0]) ELSE viol
Spec == Init /\ [][Next]_vars
Report == (l = NRec + 1) => JsonSerialize(IOEnv.OUT, [total |-> NRec, checked |-> nchk, viol |-> viol])
=============================================================================

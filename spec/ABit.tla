--------------------------------- MODULE ABit ---------------------------------
(***************************************************************************)
(* The consistency test of the multi-party authenticated-bit protocol      *)
(* (faand.rs fabitn, step 3) as linear algebra over GF(2).                 *)
(* A party holds L + E random bits; the first L are returned, the last E   *)
(* are discarded.  R public coefficient vectors coef[t] (subsets of the    *)
(* positions, drawn from the shared coins) define the test values          *)
(*     xt[t] = XOR of the bits at the positions in coef[t],                *)
(* which the party broadcasts together with, for every peer, the same      *)
(* combination of its MACs; the peer compares with the combination of its  *)
(* keys (XOR its global key if xt[t] = 1).                                  *)
(*                                                                         *)
(* Secrecy   the broadcast values must say nothing about the returned bits:*)
(*   Hidden(coef) == every assignment of the returned bits is compatible   *)
(*                   with the same set of broadcast vectors                *)
(*   DisclosureIsExact:  Hidden(coef) <=> no XOR of coefficient vectors    *)
(*                   avoids all DISCARDED positions while touching a       *)
(*                   returned one; MaskedIfFullRank: linear independence   *)
(*                   of the vectors restricted to the discarded positions  *)
(*                   is sufficient.                                         *)
(*   With E = R (as many discarded bits as tests -- the pinned code:       *)
(*   E = R = 3 RHO) a constant fraction of all coefficient choices is not   *)
(*   hidden; with E = R + k the fraction is at most 2^-k (LeakBound).       *)
(*                                                                         *)
(* Soundness a corrupted party that used different bit vectors xa, xb in    *)
(*   the pairwise OTs with two honest peers passes both peers' tests only   *)
(*   if the difference of the two vectors is orthogonal to every           *)
(*   coefficient vector; a wrong test bit or a wrong MAC combination is     *)
(*   always rejected (ABitWrongMAC).                                        *)
(***************************************************************************)
EXTENDS Naturals, FiniteSets, TLC, Gf2

CONSTANTS L, E, R, MODE
Pos == 1 .. (L + E)
First == 1 .. L
Disc == (L + 1) .. (L + E)
Tests == 1 .. R
Par(S) == Cardinality(S) % 2 = 1

RECURSIVE XorOf(_, _)
XorOf(c, T) == IF T = {} THEN {} ELSE LET t == CHOOSE x \in T : TRUE IN Sym(c[t], XorOf(c, T \ {t}))
FullRankOnDisc(c) == \A T \in (SUBSET Tests) \ {{}} : XorOf(c, T) \cap Disc # {}
\* a combination of broadcast values that is a parity of returned bits only
Disclosing(c) == { T \in (SUBSET Tests) \ {{}} : XorOf(c, T) \cap Disc = {} /\ XorOf(c, T) # {} }
\* the broadcast vector for the bit assignment `ones` (set of positions holding 1)
Out(c, ones) == [t \in Tests |-> Par(c[t] \cap ones)]
Views(c, xf) == { Out(c, xf \cup xe) : xe \in SUBSET Disc }
Hidden(c) == \A xf \in SUBSET First : Views(c, xf) = Views(c, {})

\* ---- counting (constant level): fraction of coefficient choices that disclose something -------------------------
AllCoef == [Tests -> SUBSET Pos]
Leaky == { c \in AllCoef : ~FullRankOnDisc(c) }
RECURSIVE Pow2(_)
Pow2(k) == IF k = 0 THEN 1 ELSE 2 * Pow2(k - 1)
\* union bound over the 2^R - 1 combinations, each vanishing on Disc with probability 2^-E
LeakBound == E >= R => Cardinality(Leaky) * Pow2(E - R) <= Cardinality(AllCoef)

VARIABLES coef, xa, xb, claim, dev, res
vars == << coef, xa, xb, claim, dev, res >>

\* symbolic MAC algebra for one test value (peer j's key D, key atoms per position)
Kk(j, k) == << "K", j, k >>
MacOf(j, bits, c, t) ==      \* XOR over k in c[t] of  K(j,k) XOR bits[k] * D(j)
  Sym({ Kk(j, k) : k \in c[t] }, IF Par(c[t] \cap bits) THEN {<< "D", j >>} ELSE {})
KeyComb(j, c, t) == { Kk(j, k) : k \in c[t] }
\* peer j (which saw the corrupted party use the bits `bits` in their OT) checks test t
PeerOk(j, bits, c, t, cl, d) ==
  LET mac == Sym(MacOf(j, bits, c, t), IF d = "mac" /\ t = 1 THEN {<< "G", 1 >>} ELSE {})
      bit == cl[t] # (d = "bit" /\ t = 1) IN
  mac = Sym(KeyComb(j, c, t), IF bit THEN {<< "D", j >>} ELSE {})

Init ==
  /\ coef \in AllCoef
  /\ IF MODE = "secrecy" THEN xa = {} /\ xb = {} /\ claim = [t \in Tests |-> FALSE] /\ dev = "none"
     ELSE /\ xa \in SUBSET Pos /\ xb \in SUBSET Pos
          /\ dev \in {"none", "bit", "mac"}
          \* the broadcast test bits: one vector for everybody; the best the corrupted party can do is the truth for peer a
          /\ claim = Out(coef, xa)
  /\ res = [a |-> IF \A t \in Tests : PeerOk("a", xa, coef, t, claim, dev) THEN "ok" ELSE "ABitWrongMAC",
            b |-> IF \A t \in Tests : PeerOk("b", xb, coef, t, claim, dev) THEN "ok" ELSE "ABitWrongMAC"]
Next == UNCHANGED vars
Spec == Init /\ [][Next]_vars

\* (a combination that vanishes everywhere -- repeated or empty vectors -- is rank-deficient but discloses nothing)
MaskedIfFullRank == MODE = "secrecy" => (FullRankOnDisc(coef) => Hidden(coef))
DisclosureIsExact == MODE = "secrecy" => (Disclosing(coef) = {} <=> Hidden(coef))
\* negative control for E = R: must be violated
AlwaysHidden == MODE = "secrecy" => Hidden(coef)
\* soundness
Diff == Sym(xa, xb)
InconsistentPassOnlyIfOrthogonal ==
  (MODE = "soundness" /\ dev = "none" /\ res.a = "ok" /\ res.b = "ok") => \A t \in Tests : ~Par(coef[t] \cap Diff)
ConsistentPasses == (MODE = "soundness" /\ dev = "none" /\ xa = xb) => res.a = "ok" /\ res.b = "ok"
WrongValueRejected == (MODE = "soundness" /\ dev # "none" /\ coef[1] # {}) => res.a = "ABitWrongMAC"
ASSUME LeakBound
ASSUME PrintT(<< "LEAKY", L, E, R, Cardinality(Leaky), Cardinality(AllCoef) >>)
=============================================================================

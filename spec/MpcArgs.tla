------------------------------- MODULE MpcArgs -------------------------------
(***************************************************************************)
(* The argument check of polytune::mpc (validate() in protocol.rs plus     *)
(* garble_lang's Circuit::validate) as a decision table over argument      *)
(* CLASSES: one party x of an n-party computation is given one argument of *)
(* a possibly invalid class, everything else is valid.  TLC enumerates the *)
(* whole table, checks that the code's table (as it is in the tree, FIXV)  *)
(* implies what C18 demands, and exports every row for replay.             *)
(***************************************************************************)
EXTENDS Naturals, Sequences, FiniteSets, TLC, Json

CONSTANT FIXV   \* [peval, dupout, circuit]: which repairs of validate() are in the tree

\* (an index that is no party has no "right" number of input bits: both some bits and none are tried)
OwnC == {"ok", "eq_n", "far", "eq_n_noinputs", "far_noinputs"}
PeC == {"ok", "eq_n", "far"}
PoC == {"ok", "unsorted", "empty", "has_n", "has_far", "has_n_first", "has_far_mid", "dup", "dup_unsorted"}
InC == {"ok", "minus1", "plus1", "none"}
CircC == {"ok", "badreg", "badoutreg", "read_before_write", "noinputs", "nooutputs", "input_wrong_reg",
          "ands_minus", "ands_plus", "input_after_gate", "surplus_input", "missing_input",
          "input_party_oob", "input_idx_oob", "input_party_eq_n", "input_idx_eq_len", "dup_input"}

\* what garble_lang's validate rejects
LibInvalid(c) == c \in {"badreg", "badoutreg", "read_before_write", "noinputs", "nooutputs", "input_wrong_reg"}
\* counters / instructions that disagree (the engine relies on them)
Inconsistent(c) == c \in {"ands_minus", "ands_plus", "input_after_gate", "surplus_input", "missing_input",
                          "input_party_oob", "input_idx_oob",
                          \* boundary values (first index that is no party / no input bit), one input bit loaded twice
                          \* while another is never loaded (the counters agree)
                          "input_party_eq_n", "input_idx_eq_len", "dup_input"}

Rows ==
  { [n |-> n, x |-> x, xeval |-> xe, own |-> o, pe |-> p, po |-> q, inp |-> i, circ |-> c] :
      n \in {2, 3}, x \in {0, 1, 2}, xe \in BOOLEAN, o \in OwnC, p \in PeC, q \in PoC, i \in InC, c \in CircC }

\* one deviation at a time (the property combines each invalid value with otherwise valid arguments)
Deviations(r) == Cardinality({ f \in {"own", "pe", "po", "inp", "circ"} :
                                 (f = "own" /\ r.own # "ok") \/ (f = "pe" /\ r.pe # "ok") \/ (f = "po" /\ r.po # "ok")
                                 \/ (f = "inp" /\ r.inp # "ok") \/ (f = "circ" /\ r.circ # "ok") })
Table == { r \in Rows : r.x < r.n /\ Deviations(r) <= 1 }

\* ---- what C18 demands ----------------------------------------------------
MustRejectUpFront(r) ==
  \/ r.own # "ok" \/ r.pe # "ok" \/ r.po \in {"empty", "has_n", "has_far", "has_n_first", "has_far_mid"} \/ r.inp # "ok" \/ LibInvalid(r.circ)
RejectOrSet(r) == r.po \in {"dup", "dup_unsorted"}
NoPanicOnly(r) == Inconsistent(r.circ)
MustRunCorrectly(r) == Deviations(r) = 0 \/ r.po = "unsorted"
Demand(r) == IF MustRejectUpFront(r) THEN "reject" ELSE IF RejectOrSet(r) THEN "reject_or_set"
             ELSE IF NoPanicOnly(r) THEN "nopanic" ELSE "run"

\* ---- what validate() does (as in the tree) --------------------------------
CodeRejects(r) ==
  \/ LibInvalid(r.circ)
  \/ r.own # "ok"
  \/ r.inp # "ok"
  \/ r.po \in {"empty", "has_n", "has_far", "has_n_first", "has_far_mid"}
  \/ FIXV.peval /\ r.pe # "ok"
  \/ FIXV.dupout /\ r.po \in {"dup", "dup_unsorted"}
  \/ FIXV.circuit /\ Inconsistent(r.circ)

VARIABLE row
Init == row \in Table
Next == UNCHANGED row
Spec == Init /\ [][Next]_row

RejectedUpFront == MustRejectUpFront(row) => CodeRejects(row)
\* duplicates: the tree rejects them (after the repair); set semantics would also do
DuplicatesHandled == RejectOrSet(row) => CodeRejects(row)
Export == PrintT("REPLAY " \o ToJson([row |-> row, demand |-> Demand(row), predicted |-> IF CodeRejects(row) THEN "reject" ELSE "run"]))
=============================================================================

----------------------------- MODULE ServerCore -----------------------------
(***************************************************************************)
(* The policy state machines of polytune-server-core (state.rs), one actor *)
(* per (computation, party), modelled at the grain at which the harness    *)
(* can hold the real code: one action per *gate*                            *)
(*   cmd    an actor has dequeued a command and is about to handle it       *)
(*   rpc    a PolicyClient call (validate / run / consts) is about to be    *)
(*          delivered to the peer's handle (or made to fail)                *)
(*   acq    the leader is about to acquire its concurrency permit           *)
(*   ctask  the spawned constants task is about to run                      *)
(*   mtask  the spawned MPC task is about to be polled for the first time   *)
(*   out    a PolicyClient::output call is about to reach the destination   *)
(* plus the internal steps that need no gate (reply delivery, semaphore     *)
(* grant, MPC completion / failure) and the API calls of the embedding      *)
(* application (schedule, cancel, stray commands).  Handlers that await     *)
(* inside (leader schedule, cancel, run) are several actions; while a       *)
(* handler is suspended its actor handles nothing else, as in the code.     *)
(* The MPC itself is abstract: it completes for all parties of a            *)
(* computation once every party's task runs and every actor is free to      *)
(* forward messages; it fails at a party once a peer's actor is gone.       *)
(*                                                                          *)
(* The model follows the code AS IT IS, selected by FIX flags for the       *)
(* defects that have been repaired in /repo (see known_findings.json).      *)
(***************************************************************************)
EXTENDS Naturals, Sequences, FiniteSets, TLC

CONSTANTS
  N,        \* number of parties
  NC,       \* number of computations
  Conc,     \* sequence: Conc[p+1] = concurrency (permits) of party p
  Pol,      \* Pol[c][p+1] = [leader, prog, out, consts, typed] policy of party p in computation c
  Faults,   \* [cancel: 0..k API cancels, rpcfail: 0..k failing RPCs, stray: 0..k stray commands, dupsched: ...]
  FIX       \* record of booleans: which repairs of state.rs are in the tree

Parties == 0 .. (N - 1)
Comps == 1 .. NC
A == Comps \X Parties
Others(p) == Parties \ {p}
PolOf(a) == Pol[a[1]][a[2] + 1]
IsLeader(a) == PolOf(a).leader = a[2]
\* the party that regards itself as the leader of computation c
LeaderOf(c) == IF \E q \in Parties : Pol[c][q + 1].leader = q
               THEN CHOOSE q \in Parties : Pol[c][q + 1].leader = q ELSE Pol[c][1].leader

\* number of parties whose constants the program of a's policy refers to
\* (const_deps.len()); for compatible policies: the parties that supply some
Needed(a) == Cardinality({ q \in Parties : Pol[a[1]][q + 1].consts })

VARIABLES
  kind,     \* [A -> state kind]
  cmdq,     \* [A -> Seq(command)]
  hpc,      \* [A -> handler program counter record]
  held,     \* [A -> reply slots stored in the state kind]
  rpc,      \* set of RPCs parked at the client or queued at the callee
  replyq,   \* set of RPC replies on their way back to the caller
  consts,   \* [A -> SUBSET Parties] whose constants have been inserted
  ctask,    \* [A -> constants task]
  mtask,    \* [A -> MPC task status]
  mpcok,    \* [A -> BOOLEAN] the MPC protocol completed at this party
  npermit,  \* [A -> BOOLEAN] stored permit of the `cancel` Notify (handler -> task)
  cdone,    \* [A -> BOOLEAN] stored permit of the task -> handler notification
  ckind,    \* [A -> state kind in which cancel() was handled, "" if not]
  sem,      \* [Parties -> available permits]
  semq,     \* [Parties -> Seq(A)] handlers waiting for a permit (FIFO)
  permit,   \* [A -> "none" | "actor" | "task"]
  sched,    \* [A -> result of the schedule() call]
  cancl,    \* [A -> result of the cancel() call]
  outq,     \* [A -> Seq([val, by])] output calls parked at the client
  outs,     \* [A -> Seq(val)] notifications delivered to the output destination
  strays,   \* [A -> Seq([cmd, res])] answers to stray commands
  chanBroken,\* [A -> BOOLEAN] live channel endpoints were replaced
  msgs,     \* [Comps -> BOOLEAN] some MPC protocol message was exchanged
  budget,   \* remaining fault budget
  lastOut,  \* [A -> BOOLEAN] an output was delivered after cancel() returned Ok (history)
  callFailed \* set of << actor, rpc kind >>: a coordination call of the actor returned an error (history)

vars == << kind, cmdq, hpc, held, rpc, replyq, consts, ctask, mtask, mpcok, npermit, cdone, ckind, sem, semq, permit,
           sched, cancl, outq, outs, strays, chanBroken, msgs, budget, lastOut, callFailed >>

Idle == [pc |-> "idle", pend |-> {}]
NoHeld == [sched |-> FALSE, val |-> FALSE, vleader |-> 0, vprog |-> ""]
NoTask == [st |-> "none", pend |-> {}]

InitSt ==
  [kind |-> [a \in A |-> "Init"], cmdq |-> [a \in A |-> << >>], hpc |-> [a \in A |-> Idle],
   held |-> [a \in A |-> NoHeld], rpc |-> {}, replyq |-> {}, consts |-> [a \in A |-> {}],
   ctask |-> [a \in A |-> NoTask], mtask |-> [a \in A |-> "none"], mpcok |-> [a \in A |-> FALSE], npermit |-> [a \in A |-> FALSE],
   cdone |-> [a \in A |-> FALSE], ckind |-> [a \in A |-> ""], sem |-> [p \in Parties |-> Conc[p + 1]],
   semq |-> [p \in Parties |-> << >>], permit |-> [a \in A |-> "none"], sched |-> [a \in A |-> "none"],
   cancl |-> [a \in A |-> "none"], outq |-> [a \in A |-> << >>], outs |-> [a \in A |-> << >>],
   strays |-> [a \in A |-> << >>], chanBroken |-> [a \in A |-> "no"], msgs |-> [c \in Comps |-> FALSE],
   budget |-> Faults, lastOut |-> [a \in A |-> FALSE], callFailed |-> {}]

Init ==
  /\ kind = InitSt.kind /\ cmdq = InitSt.cmdq /\ hpc = InitSt.hpc /\ held = InitSt.held /\ rpc = InitSt.rpc
  /\ replyq = InitSt.replyq /\ consts = InitSt.consts /\ ctask = InitSt.ctask /\ mtask = InitSt.mtask /\ mpcok = InitSt.mpcok
  /\ npermit = InitSt.npermit /\ cdone = InitSt.cdone /\ ckind = InitSt.ckind /\ sem = InitSt.sem
  /\ semq = InitSt.semq /\ permit = InitSt.permit /\ sched = InitSt.sched /\ cancl = InitSt.cancl
  /\ outq = InitSt.outq /\ outs = InitSt.outs /\ strays = InitSt.strays /\ chanBroken = InitSt.chanBroken
  /\ msgs = InitSt.msgs /\ budget = InitSt.budget /\ lastOut = InitSt.lastOut /\ callFailed = InitSt.callFailed

-----------------------------------------------------------------------------
(* The state is threaded through pure operators as a record so that one    *)
(* action can compose several effects (reply, break, enqueue ...).         *)

St == [kind |-> kind, cmdq |-> cmdq, hpc |-> hpc, held |-> held, rpc |-> rpc, replyq |-> replyq,
       consts |-> consts, ctask |-> ctask, mtask |-> mtask, mpcok |-> mpcok, npermit |-> npermit, cdone |-> cdone,
       ckind |-> ckind, sem |-> sem,
       semq |-> semq, permit |-> permit, sched |-> sched, cancl |-> cancl, outq |-> outq,
       outs |-> outs, strays |-> strays, chanBroken |-> chanBroken, msgs |-> msgs,
       budget |-> budget, lastOut |-> lastOut, callFailed |-> callFailed]

Commit(s) ==
  /\ kind' = s.kind /\ cmdq' = s.cmdq /\ hpc' = s.hpc /\ held' = s.held /\ rpc' = s.rpc
  /\ replyq' = s.replyq /\ consts' = s.consts /\ ctask' = s.ctask /\ mtask' = s.mtask /\ mpcok' = s.mpcok
  /\ npermit' = s.npermit /\ cdone' = s.cdone /\ ckind' = s.ckind /\ sem' = s.sem /\ semq' = s.semq /\ permit' = s.permit
  /\ sched' = s.sched /\ cancl' = s.cancl /\ outq' = s.outq /\ outs' = s.outs
  /\ strays' = s.strays /\ chanBroken' = s.chanBroken /\ msgs' = s.msgs /\ budget' = s.budget
  /\ lastOut' = s.lastOut /\ callFailed' = s.callFailed

Alive(s, a) == s.kind[a] # "Stopped"

\* a command record; src = "api" | "self" | "stray" | "rpc" (then from = calling party)
Cmd(t, src) == [t |-> t, src |-> src, from |-> 0, leader |-> 0, prog |-> ""]
RpcCmd(t, from) == [t |-> t, src |-> "rpc", from |-> from, leader |-> 0, prog |-> ""]
ValCmd(src, from, leader, prog) == [t |-> "Validate", src |-> src, from |-> from, leader |-> leader, prog |-> prog]

Rpc(k, c, from, to, st) == [k |-> k, c |-> c, from |-> from, to |-> to, st |-> st]
Reply(k, c, from, to, ok) == [k |-> k, c |-> c, from |-> from, to |-> to, ok |-> ok]

\* the command kind that an RPC kind turns into
CmdOfRpc(k) == CASE k = "validate" -> "Validate" [] k = "run" -> "Run" [] k = "consts" -> "Consts"

Enq(s, a, cmd) == IF Alive(s, a) THEN [s EXCEPT !.cmdq[a] = Append(@, cmd)] ELSE s

\* answer to a command that came in through the handle
\* (api: schedule; stray: recorded; party: RPC reply on its way back)
StrayName(cmd) == IF cmd.t = "Run" /\ cmd.from = 1 THEN "RunEarly"
                  ELSE IF cmd.t = "Consts" /\ cmd.from = 99 THEN "ConstsBad" ELSE cmd.t
Answer(s, a, cmd, ok) ==
  IF cmd.src = "api" THEN
    (IF cmd.t = "Schedule" THEN [s EXCEPT !.sched[a] = IF ok THEN "ok" ELSE "err"]
     ELSE IF cmd.t = "Cancel" THEN [s EXCEPT !.cancl[a] = IF ok THEN "ok" ELSE "err"] ELSE s)
  ELSE IF cmd.src = "stray" THEN [s EXCEPT !.strays[a] = Append(@, [cmd |-> StrayName(cmd), res |-> IF ok THEN "ok" ELSE "err"])]
  ELSE IF cmd.src = "self" THEN s
  ELSE LET k == CASE cmd.t = "Validate" -> "validate" [] cmd.t = "Run" -> "run" [] cmd.t = "Consts" -> "consts" IN
       [s EXCEPT !.replyq = @ \cup {Reply(k, a[1], cmd.from, a[2], ok)},
                 !.rpc = @ \ {Rpc(k, a[1], cmd.from, a[2], "queued")}]

\* a reply slot is dropped without an answer: the caller sees StateMachineStopped
Dropped(s, a, cmd) ==
  IF cmd.src = "api" THEN
    (IF cmd.t = "Schedule" THEN [s EXCEPT !.sched[a] = "stopped"]
     ELSE IF cmd.t = "Cancel" THEN [s EXCEPT !.cancl[a] = "stopped"] ELSE s)
  ELSE IF cmd.src = "stray" THEN [s EXCEPT !.strays[a] = Append(@, [cmd |-> StrayName(cmd), res |-> "stopped"])]
  ELSE IF cmd.src = "self" THEN s
  ELSE Answer(s, a, cmd, FALSE)

RECURSIVE DropAll(_, _, _)
DropAll(s, a, q) == IF q = << >> THEN s ELSE DropAll(Dropped(s, a, Head(q)), a, Tail(q))

\* give back a permit of party p; the first waiting handler (FIFO) is served by SemGrant
ReleasePermit(s, a) ==
  IF s.permit[a] = "none" THEN s
  ELSE [s EXCEPT !.permit[a] = "none", !.sem[a[2]] = @ + 1]

\* the actor of a ends (ControlFlow::Break, or Stop): the state machine is
\* dropped with everything it owns: queued commands (their reply slots),
\* the reply slots stored in its state kind, its permit, its parked client
\* calls made from the handler
Break(s, a) ==
  LET s1 == DropAll(s, a, s.cmdq[a])
      s2 == IF s1.held[a].sched THEN [s1 EXCEPT !.sched[a] = "stopped"] ELSE s1
      s3 == IF s2.held[a].val
            THEN [s2 EXCEPT !.replyq = @ \cup {Reply("validate", a[1], s2.held[a].vleader, a[2], FALSE)},
                            !.rpc = @ \ {Rpc("validate", a[1], s2.held[a].vleader, a[2], "queued")}]
            ELSE s2
      s4 == IF s3.permit[a] = "actor" THEN ReleasePermit(s3, a) ELSE s3
  IN [s4 EXCEPT !.kind[a] = "Stopped", !.cmdq[a] = << >>, !.hpc[a] = Idle, !.held[a] = NoHeld,
                !.semq[a[2]] = SelectSeq(@, LAMBDA x : x # a),
                \* client calls parked by the handler itself (validate / run) die with it
                !.rpc = { r \in @ : ~(r.c = a[1] /\ r.from = a[2] /\ r.st = "parked" /\ r.k \in {"validate", "run"}) }]

-----------------------------------------------------------------------------
(* API calls of the embedding application                                  *)

CallSchedule(a) ==
  /\ sched[a] = "none"
  /\ LET s == St IN
     Commit(IF Alive(s, a) THEN [Enq(s, a, Cmd("Schedule", "api")) EXCEPT !.sched[a] = "called"]
            ELSE [s EXCEPT !.sched[a] = "stopped"])

CallCancel(a) ==
  /\ cancl[a] = "none"
  /\ budget.cancel > 0
  /\ LET s == [St EXCEPT !.budget.cancel = @ - 1] IN
     Commit(IF Alive(s, a) THEN [Enq(s, a, Cmd("Cancel", "api")) EXCEPT !.cancl[a] = "called"]
            ELSE [s EXCEPT !.cancl[a] = "stopped"])

\* stray commands through the public handle: duplicate schedule, run / consts /
\* validate that the protocol does not expect now, an MPC message with a
\* sender index out of range ("MsgBad")
StrayKinds == {"Schedule", "Run", "Consts", "Validate", "MsgBad", "MsgEarly", "RunEarly", "ConstsBad", "MsgSelf"}
NotYetValidated(a) == kind[a] \in {"Init", "AwaitingValidation", "ValidateRequested"}
ActorQuiet(a) == hpc[a].pc = "idle" /\ cmdq[a] = << >>
StrayAllowed(a, t) ==
  CASE t = "Schedule" -> sched[a] # "none"                  \* a duplicate of the party's own schedule
    \* "for a computation not yet validated"; the actor is idle with an empty
    \* queue, so the command is handled in the state it was sent in
    [] t \in {"Run", "Consts"} -> NotYetValidated(a) /\ ActorQuiet(a)
    \* invalid for the current state
    [] t = "Validate" -> (~NotYetValidated(a) \/ kind[a] = "ValidateRequested") /\ kind[a] # "Stopped" /\ ActorQuiet(a)
    [] t = "MsgBad" -> TRUE                                  \* sender index >= number of participants
    [] t = "ConstsBad" -> TRUE                               \* constants from an index >= number of participants
    [] t = "MsgEarly" -> sched[a] = "none"                   \* in-range sender, before scheduling
    [] t = "MsgSelf" -> TRUE                                 \* the party's own index as sender: nobody sends to itself
    \* a run request that reaches the leader while it is still inside its schedule step (a retried or misrouted
    \* request): it waits in the queue and is handled once the policy is validated -- as a valid run; the run
    \* command the leader then sends to itself arrives in a state it is invalid for and must change nothing
    [] t = "RunEarly" -> IsLeader(a) /\ NotYetValidated(a) /\ sched[a] = "called" /\ hpc[a].pc # "idle"
Inject(a, t) ==
  /\ budget.stray > 0
  /\ t \in StrayKinds
  /\ StrayAllowed(a, t)   \* (the driver applies the same rule to its random strays)
  /\ LET s == [St EXCEPT !.budget.stray = @ - 1] IN
     Commit(IF Alive(s, a) THEN Enq(s, a, IF t = "Validate" THEN ValCmd("stray", 0, PolOf(a).leader, PolOf(a).prog)
                                          ELSE IF t = "RunEarly" THEN [Cmd("Run", "stray") EXCEPT !.from = 1]
                                          ELSE IF t = "ConstsBad" THEN [Cmd("Consts", "stray") EXCEPT !.from = 99]
                                          ELSE Cmd(t, "stray"))
            ELSE [s EXCEPT !.strays[a] = Append(@, [cmd |-> t, res |-> "stopped"])])

-----------------------------------------------------------------------------
(* Handlers                                                                 *)

CheckConsts(s, a) ==
  IF Cardinality(s.consts[a]) = Needed(a)
  THEN Enq([s EXCEPT !.kind[a] = "Running"], a, Cmd("Run", "self"))
  ELSE [s EXCEPT !.kind[a] = "SendingConstsCompleted"]

ParkRpcs(s, k, a) ==
  [s EXCEPT !.rpc = @ \cup { Rpc(k, a[1], a[2], q, "parked") : q \in Others(a[2]) }]

\* follower-side compatibility check shared by schedule() and validate()
Compatible(a, vleader, vprog) == vleader = PolOf(a).leader /\ vprog = PolOf(a).prog

HSchedule(s, a, cmd) ==
  LET pol == PolOf(a) IN
  IF ~pol.typed THEN Break(Answer(s, a, cmd, FALSE), a)
  ELSE
  LET stateOk == IF IsLeader(a) THEN s.kind[a] = "Init" ELSE s.kind[a] \in {"Init", "ValidateRequested"}
      \* init_channel replaces the channel endpoints; on the pinned tree this
      \* happens before the state is looked at
      replaces == IF FIX.initChannelAfterCheck THEN stateOk ELSE TRUE
      traffic == \E p \in Parties : s.mtask[<< a[1], p >>] \notin {"none", "gate"}
      s0 == IF replaces /\ s.kind[a] \in {"Running", "Executing"}
              THEN [s EXCEPT !.chanBroken[a] = "err"]       \* old senders dropped: receive fails
            ELSE IF replaces /\ traffic /\ s.chanBroken[a] = "no"
              THEN [s EXCEPT !.chanBroken[a] = "lost"]      \* buffered messages are gone: receive waits for ever
            ELSE s IN
  IF IsLeader(a) THEN
    IF s0.kind[a] # "Init" THEN Answer(s0, a, cmd, FALSE)
    ELSE [ParkRpcs(s0, "validate", a) EXCEPT !.hpc[a] = [pc |-> "wait_val", pend |-> Others(a[2])]]
  ELSE
    CASE s0.kind[a] = "Init" ->
           IF cmd.src = "api" THEN [s0 EXCEPT !.kind[a] = "AwaitingValidation", !.held[a].sched = TRUE]
           ELSE Answer(s0, a, cmd, FALSE)
      [] s0.kind[a] = "ValidateRequested" ->
           LET h == s0.held[a]
               vrep(ok) == [s0 EXCEPT !.replyq = @ \cup {Reply("validate", a[1], h.vleader, a[2], ok)},
                                      !.rpc = @ \ {Rpc("validate", a[1], h.vleader, a[2], "queued")},
                                      !.held[a] = NoHeld] IN
           IF h.vleader # pol.leader
             THEN Break(Answer(vrep(FALSE), a, cmd, FALSE), a)
           ELSE IF h.vprog # pol.prog
             THEN Break(Dropped(vrep(FALSE), a, cmd), a)   \* schedule's reply slot is only dropped
           ELSE Answer([vrep(TRUE) EXCEPT !.kind[a] = "Validated"], a, cmd, TRUE)
      [] OTHER -> Answer(s0, a, cmd, FALSE)

HValidate(s, a, cmd) ==
  CASE s.kind[a] = "Init" ->
         [s EXCEPT !.kind[a] = "ValidateRequested",
                   !.held[a] = [sched |-> FALSE, val |-> TRUE, vleader |-> cmd.leader, vprog |-> cmd.prog]]
    [] s.kind[a] = "AwaitingValidation" ->
         IF ~Compatible(a, cmd.leader, cmd.prog)
         THEN Break(Answer(s, a, cmd, FALSE), a)        \* schedule_ret is dropped by Break
         ELSE Answer([[s EXCEPT !.kind[a] = "Validated", !.held[a] = NoHeld] EXCEPT !.sched[a] = "ok"], a, cmd, TRUE)
    [] OTHER -> Answer(s, a, cmd, FALSE)

HRun(s, a, cmd) ==
  LET pol == PolOf(a) IN
  CASE s.kind[a] = "Validated" ->
         LET s1 == [s EXCEPT !.kind[a] = "SendingConsts",
                             !.consts[a] = IF pol.consts THEN @ \cup {a[2]} ELSE @]
             s2 == Answer(s1, a, cmd, TRUE) IN
         IF pol.consts THEN [s2 EXCEPT !.ctask[a] = [st |-> "gate", pend |-> {}]]
         ELSE Enq([s2 EXCEPT !.ctask[a] = [st |-> "done", pend |-> {}]], a, Cmd("ICS", "self"))
    [] s.kind[a] = "Running" ->
         \* compile (own thread), literal_arg, spawn the MPC task; the permit moves into the task
         [s EXCEPT !.kind[a] = "Executing", !.mtask[a] = "gate", !.npermit[a] = FALSE,
                   !.permit[a] = IF @ = "actor" THEN "task" ELSE @]
    [] OTHER -> Answer(s, a, cmd, FALSE)

HConsts(s, a, cmd) ==
  \* constants from an index outside the participants are refused in every state (fix constsBoundsCheck)
  IF cmd.src = "stray" /\ cmd.from = 99 THEN Answer(s, a, cmd, FALSE) ELSE
  LET ins(t) == IF cmd.src = "rpc" /\ Pol[a[1]][cmd.from + 1].consts
                THEN [t EXCEPT !.consts[a] = @ \cup {cmd.from}] ELSE t IN
  CASE s.kind[a] \in {"Validated", "SendingConsts"} -> Answer(ins(s), a, cmd, TRUE)
    [] s.kind[a] = "SendingConstsCompleted" -> CheckConsts(Answer(ins(s), a, cmd, TRUE), a)
    [] OTHER -> Answer(s, a, cmd, FALSE)

HIcs(s, a) ==
  IF s.kind[a] # "SendingConsts" THEN s
  ELSE IF s.ctask[a].st = "failed" THEN Break(s, a)     \* client_recv fails: the sending task gave up
  ELSE CheckConsts(s, a)

\* send_cancel + reply, from the handler
CancelNotify(s, a, cmd) ==
  IF PolOf(a).out
  THEN [s EXCEPT !.outq[a] = Append(@, [val |-> "cancelled", by |-> "h_cancel"]),
                 !.hpc[a] = [pc |-> "out_cancel", pend |-> {}]]
  ELSE Break(Answer(s, a, cmd, TRUE), a)

\* the task -> handler notification: wakes a handler blocked in cancel(),
\* otherwise the permit is stored
SignalHandler(s, a) ==
  IF s.hpc[a].pc = "cancel_wait" THEN Break([s EXCEPT !.cancl[a] = "ok"], a)
  ELSE [s EXCEPT !.cdone[a] = TRUE]

\* the MPC task is woken in its select by the cancel notification: the MPC
\* future (and an output call it may be parked in) is dropped together with
\* the permit it owns, then the Cancelled notification is sent and the
\* handler is notified
TaskCancelBranch(s, a) ==
  LET s1 == IF s.permit[a] = "task" THEN ReleasePermit(s, a) ELSE s
      s2 == [s1 EXCEPT !.outq[a] = SelectSeq(@, LAMBDA o : o.by # "mtask")] IN
  IF PolOf(a).out
  THEN [s2 EXCEPT !.outq[a] = Append(@, [val |-> "cancelled", by |-> "mtask_cancel"]), !.mtask[a] = "cancelout"]
  ELSE SignalHandler([s2 EXCEPT !.mtask[a] = "cancelled"], a)

HCancel(s0, a, cmd) ==
  LET s == [s0 EXCEPT !.ckind[a] = s0.kind[a]] IN
  CASE s.kind[a] \in {"Init", "ValidateRequested"} -> Break(Answer(s, a, cmd, TRUE), a)
    [] s.kind[a] = "SendingConsts" ->
         IF s.ctask[a].st = "done" THEN CancelNotify(s, a, cmd)
         ELSE IF s.ctask[a].st = "failed" THEN Break(Answer(s, a, cmd, FALSE), a)   \* ClientNotAvailable
         ELSE IF FIX.cancelAbortsConstsTask
           \* repaired: the sending task is aborted (its parked calls and a parked
           \* error notification die with it) and a new client sends the notice
           THEN CancelNotify([s EXCEPT !.ctask[a] = [st |-> "aborted", pend |-> {}],
                                      !.rpc = { r \in @ : ~(r.c = a[1] /\ r.from = a[2] /\ r.st = "parked" /\ r.k = "consts") },
                                      !.outq[a] = SelectSeq(@, LAMBDA o : o.by # "ctask")], a, cmd)
         \* pinned: the handler waits for the task to hand back its client
         ELSE [s EXCEPT !.hpc[a] = [pc |-> "cancel_client_wait", pend |-> {}]]
    [] s.kind[a] \in {"AwaitingValidation", "Validated", "SendingConstsCompleted", "Running"} ->
         CancelNotify(s, a, cmd)
    [] s.kind[a] = "Executing" ->
         \* cancel.notify_one(): a task waiting in its select takes the cancel
         \* branch.  Then the handler waits for the task's notification:
         \*  pinned:   on the SAME Notify -- with no waiting task the handler
         \*            consumes the permit it has just stored and returns Ok
         \*  repaired: on a second Notify that the task signals whenever it ends
         IF s.mtask[a] \in {"running", "outgate"}
           THEN TaskCancelBranch([s EXCEPT !.hpc[a] = [pc |-> "cancel_wait", pend |-> {}]], a)
         ELSE IF ~FIX.cancelHandshake THEN Break(Answer(s, a, cmd, TRUE), a)
         ELSE IF s.cdone[a] THEN Break(Answer([s EXCEPT !.cdone[a] = FALSE], a, cmd, TRUE), a)
         ELSE [s EXCEPT !.npermit[a] = (s.mtask[a] = "gate"), !.hpc[a] = [pc |-> "cancel_wait", pend |-> {}]]
    [] OTHER -> s

HMsgBad(s, a, cmd) ==
  IF FIX.msgBoundsCheck THEN Answer(s, a, cmd, FALSE)
  ELSE \* index out of bounds: the actor task panics
       [Break(Dropped(s, a, cmd), a) EXCEPT !.kind[a] = "Stopped", !.strays[a] = Append(@, [cmd |-> "PANIC", res |-> "panic"])]

Handle(s, a, cmd) ==
  CASE cmd.t = "Schedule" -> HSchedule(s, a, cmd)
    [] cmd.t = "Validate" -> HValidate(s, a, cmd)
    [] cmd.t = "Run" -> HRun(s, a, cmd)
    [] cmd.t = "Consts" -> HConsts(s, a, cmd)
    [] cmd.t = "ICS" -> HIcs(s, a)
    [] cmd.t = "Stop" -> Break(s, a)
    [] cmd.t = "Cancel" -> HCancel(s, a, cmd)
    [] cmd.t \in {"MsgBad", "MsgEarly", "MsgSelf"} -> HMsgBad(s, a, cmd)

\* gate "cmd": the actor handles the command at the head of its queue
CmdGate(a) == Alive(St, a) /\ hpc[a].pc = "idle" /\ cmdq[a] # << >>
DoCmd(a) ==
  /\ CmdGate(a)
  /\ LET cmd == Head(cmdq[a])
         s == [St EXCEPT !.cmdq[a] = Tail(@)] IN
     Commit(Handle(s, a, cmd))

-----------------------------------------------------------------------------
(* RPCs                                                                     *)

\* gate "rpc", released for delivery: the command enters the callee's queue
\* (or the call fails at once because the callee's state machine is gone)
DeliverRpc(r) ==
  /\ r \in rpc /\ r.st = "parked"
  /\ LET to == << r.c, r.to >>
         s == St
         cmd == IF r.k = "validate" THEN ValCmd("rpc", r.from, Pol[r.c][r.from + 1].leader, Pol[r.c][r.from + 1].prog)
                ELSE RpcCmd(CmdOfRpc(r.k), r.from) IN
     Commit(IF Alive(s, to)
            THEN [Enq(s, to, cmd) EXCEPT !.rpc = (@ \ {r}) \cup {[r EXCEPT !.st = "queued"]}]
            ELSE [s EXCEPT !.rpc = @ \ {r}, !.replyq = @ \cup {Reply(r.k, r.c, r.from, r.to, FALSE)}])

\* gate "rpc", released with an injected transport failure
FailRpc(r) ==
  /\ r \in rpc /\ r.st = "parked"
  /\ budget.rpcfail > 0
  /\ Commit([St EXCEPT !.budget.rpcfail = @ - 1, !.rpc = @ \ {r},
                       !.replyq = @ \cup {Reply(r.k, r.c, r.from, r.to, FALSE)}])

\* the leader's handler got all run replies (or the first error)
AfterRun(s, a, failed) ==
  LET dropParked(t) == [t EXCEPT !.rpc = { r \in @ : ~(r.c = a[1] /\ r.from = a[2] /\ r.st = "parked" /\ r.k = "run") }] IN
  IF failed /\ (PolOf(a).out \/ FIX.runFailureStops) THEN
    IF PolOf(a).out
    THEN [dropParked(s) EXCEPT !.outq[a] = Append(@, [val |-> "runerr", by |-> "h_break"]),
                               !.hpc[a] = [pc |-> "out_break", pend |-> {}]]
    ELSE Break(dropParked(s), a)
  ELSE Enq([dropParked(s) EXCEPT !.kind[a] = "Validated", !.hpc[a] = Idle], a, Cmd("Run", "self"))

ConstsTaskEnd(s, a) ==
  Enq([s EXCEPT !.ctask[a] = [st |-> "done", pend |-> {}]], a, Cmd("ICS", "self"))

\* repaired tree: after a failure the task does not hand the client back, so
\* internal_consts_sent (or a cancel) stops the state machine
ConstsTaskAbort(s, a) ==
  Enq([s EXCEPT !.ctask[a] = [st |-> "failed", pend |-> {}]], a, Cmd("ICS", "self"))

\* the constants task saw the first error of its try_join_all
ConstsTaskFailed(s, a) ==
  LET s1 == [s EXCEPT !.rpc = { r \in @ : ~(r.c = a[1] /\ r.from = a[2] /\ r.st = "parked" /\ r.k = "consts") }] IN
  IF PolOf(a).out
  THEN [s1 EXCEPT !.outq[a] = Append(@, [val |-> "constserr", by |-> "ctask"]), !.ctask[a] = [st |-> "outgate", pend |-> {}]]
  ELSE IF FIX.constsFailureStops
       THEN ConstsTaskAbort(s1, a)
       ELSE ConstsTaskEnd(s1, a)

\* internal: a reply reaches the caller
DoReply(rp) ==
  /\ rp \in replyq
  /\ LET a == << rp.c, rp.from >>
         waiting == \/ rp.k = "validate" /\ hpc[a].pc = "wait_val" /\ rp.to \in hpc[a].pend
                    \/ rp.k = "run" /\ hpc[a].pc = "wait_run" /\ rp.to \in hpc[a].pend
                    \/ rp.k = "consts" /\ ctask[a].st = "sending" /\ rp.to \in ctask[a].pend
         s == [St EXCEPT !.replyq = @ \ {rp},
                         !.callFailed = IF waiting /\ ~rp.ok THEN @ \cup {<< a, rp.k >>} ELSE @] IN
     Commit(
       CASE rp.k = "validate" /\ s.hpc[a].pc = "wait_val" /\ rp.to \in s.hpc[a].pend ->
              IF ~rp.ok THEN Break([s EXCEPT !.sched[a] = "err"], a)
              ELSE IF s.hpc[a].pend = {rp.to}
                   THEN [s EXCEPT !.sched[a] = "ok", !.hpc[a] = [pc |-> "acq_gate", pend |-> {}]]
                   ELSE [s EXCEPT !.hpc[a].pend = @ \ {rp.to}]
         [] rp.k = "run" /\ s.hpc[a].pc = "wait_run" /\ rp.to \in s.hpc[a].pend ->
              IF ~rp.ok THEN AfterRun(s, a, TRUE)
              ELSE IF s.hpc[a].pend = {rp.to} THEN AfterRun(s, a, FALSE)
                   ELSE [s EXCEPT !.hpc[a].pend = @ \ {rp.to}]
         [] rp.k = "consts" /\ s.ctask[a].st = "sending" /\ rp.to \in s.ctask[a].pend ->
              IF ~rp.ok THEN ConstsTaskFailed(s, a)
              ELSE IF s.ctask[a].pend = {rp.to} THEN ConstsTaskEnd(s, a)
                   ELSE [s EXCEPT !.ctask[a].pend = @ \ {rp.to}]
         [] OTHER -> s)     \* the caller is gone or no longer interested

-----------------------------------------------------------------------------
(* Leader: permit                                                           *)

StartRuns(s, a) ==
  [ParkRpcs([s EXCEPT !.sem[a[2]] = @ - 1, !.permit[a] = "actor"], "run", a)
     EXCEPT !.hpc[a] = [pc |-> "wait_run", pend |-> Others(a[2])]]

\* gate "acq"
DoAcquire(a) ==
  /\ hpc[a].pc = "acq_gate"
  /\ Commit(IF sem[a[2]] > 0 /\ semq[a[2]] = << >> THEN StartRuns(St, a)
            ELSE [St EXCEPT !.semq[a[2]] = Append(@, a), !.hpc[a] = [pc |-> "acq_wait", pend |-> {}]])

\* internal: the semaphore serves its first waiter
SemGrant(p) ==
  /\ sem[p] > 0 /\ semq[p] # << >>
  /\ LET a == Head(semq[p]) IN
     Commit(StartRuns([St EXCEPT !.semq[p] = Tail(@)], a))

-----------------------------------------------------------------------------
(* Constants task, MPC task                                                 *)

\* gate "ctask"
DoCtask(a) ==
  /\ ctask[a].st = "gate"
  /\ Commit([ParkRpcs(St, "consts", a) EXCEPT !.ctask[a] = [st |-> "sending", pend |-> Others(a[2])]])

\* gate "mtask": the spawned MPC task is polled for the first time; a stored
\* cancel permit is found by the select at once
DoMtask(a) ==
  /\ mtask[a] = "gate"
  /\ LET s == St IN
     IF s.npermit[a]
     \* select! polls its branches in random order: the MPC future may or may
     \* not get to send its first message before the stored cancellation is seen
     THEN \E started \in BOOLEAN :
            Commit(TaskCancelBranch([s EXCEPT !.npermit[a] = FALSE, !.msgs[a[1]] = (@ \/ started)], a))
     ELSE Commit([s EXCEPT !.mtask[a] = "running", !.msgs[a[1]] = TRUE])  \* the first round is sent at once

Free(s, a) == Alive(s, a) /\ s.hpc[a].pc = "idle" /\ s.cmdq[a] = << >>

\* repaired tree only: the task signals `cancelled` whenever it ends
TaskEnd(s, a) == IF FIX.cancelHandshake THEN SignalHandler(s, a) ELSE s

\* after the MPC future ended at party a (result or error)
MpcEnd(s, a, val) ==
  IF PolOf(a).out
  THEN [s EXCEPT !.outq[a] = Append(@, [val |-> val, by |-> "mtask"]), !.mtask[a] = "outgate"]
  ELSE TaskEnd(Enq(ReleasePermit([s EXCEPT !.mtask[a] = "finished"], a), a, Cmd("Stop", "self")), a)

\* internal: the MPC of computation c runs to completion at all parties
CompActors(c) == { << c, p >> : p \in Parties }
RECURSIVE EndAll(_, _, _)
EndAll(s, as, val) == IF as = {} THEN s ELSE LET a == CHOOSE x \in as : TRUE IN EndAll(MpcEnd(s, a, val), as \ {a}, val)

MpcComplete(c) ==
  /\ \A a \in CompActors(c) : mtask[a] = "running" /\ Free(St, a) /\ chanBroken[a] = "no"
  /\ Commit(EndAll([St EXCEPT !.msgs[c] = TRUE, !.mpcok = [a \in A |-> @[a] \/ a[1] = c]], CompActors(c), "ok"))

\* internal: the MPC fails at a: a peer's state machine is gone without having
\* completed the protocol, or a's own channel endpoints were dropped / replaced
PeerGone(s, a) ==
  \E q \in Others(a[2]) : LET b == << a[1], q >> IN
     s.kind[b] = "Stopped" /\ ~s.mpcok[b]
MpcFail(a) ==
  /\ mtask[a] = "running"
  /\ \/ PeerGone(St, a)
     \/ ~Alive(St, a)
     \/ chanBroken[a] = "err"
  /\ Commit(MpcEnd([St EXCEPT !.msgs[a[1]] = TRUE], a, "mpcerr"))

-----------------------------------------------------------------------------
(* gate "out": a notification reaches the output destination                *)

DoOut(a) ==
  /\ outq[a] # << >>
  /\ LET o == Head(outq[a])
         s0 == [St EXCEPT !.outq[a] = Tail(@), !.outs[a] = Append(@, o.val),
                          !.lastOut[a] = (@ \/ cancl[a] = "ok")] IN
     Commit(
       CASE o.by = "h_break" -> Break(s0, a)
         [] o.by = "h_cancel" -> Break([s0 EXCEPT !.cancl[a] = "ok"], a)
         [] o.by = "ctask" -> IF FIX.constsFailureStops THEN ConstsTaskAbort(s0, a) ELSE ConstsTaskEnd(s0, a)
         [] o.by = "mtask" -> TaskEnd(Enq(ReleasePermit([s0 EXCEPT !.mtask[a] = "finished"], a), a, Cmd("Stop", "self")), a)
         [] o.by = "mtask_cancel" ->
              \* cancel.notify_one() (pinned) / cancelled.notify_one() (repaired)
              SignalHandler([s0 EXCEPT !.mtask[a] = "cancelled"], a))

\* internal: a handler blocked in cancel() continues
CancelWake(a) ==
  \/ /\ hpc[a].pc = "cancel_wait" /\ cdone[a]
     /\ Commit(Break([St EXCEPT !.cdone[a] = FALSE, !.cancl[a] = "ok"], a))
  \/ /\ hpc[a].pc = "cancel_client_wait" /\ ctask[a].st = "done"
     /\ Commit(CancelNotify([St EXCEPT !.hpc[a] = Idle], a, Cmd("Cancel", "api")))
  \/ /\ hpc[a].pc = "cancel_client_wait" /\ ctask[a].st = "failed"
     /\ Commit(Break([St EXCEPT !.cancl[a] = "err"], a))

-----------------------------------------------------------------------------
Internal ==
  \/ \E rp \in replyq : DoReply(rp)
  \/ \E p \in Parties : SemGrant(p)
  \/ \E c \in Comps : MpcComplete(c)
  \/ \E a \in A : MpcFail(a) \/ CancelWake(a)

Gate ==
  \/ \E a \in A : DoCmd(a) \/ DoAcquire(a) \/ DoCtask(a) \/ DoMtask(a) \/ DoOut(a)
  \/ \E r \in rpc : DeliverRpc(r) \/ FailRpc(r)

Api ==
  \/ \E a \in A : CallSchedule(a) \/ CallCancel(a)
  \/ \E a \in A : \E t \in StrayKinds : Inject(a, t)

Next == Internal \/ Gate \/ Api

Spec == Init /\ [][Next]_vars
FairSpec == Spec /\ WF_vars(Internal \/ Gate) /\ \A a \in A : WF_vars(CallSchedule(a))

-----------------------------------------------------------------------------
(* Properties                                                               *)

Quiescent ==
  /\ ~ENABLED (Internal \/ Gate)
  /\ \A a \in A : sched[a] # "none"

HeldPermits(p) == Cardinality({ a \in A : a[2] = p /\ permit[a] # "none" })

\* C17 bound: never more computations led at once than the concurrency, and
\* the semaphore accounting is exact
PermitAccounting == \A p \in Parties : sem[p] + HeldPermits(p) = Conc[p + 1]
ConcurrencyBound ==
  \A p \in Parties :
    Cardinality({ a \in A : a[2] = p /\ IsLeader(a) /\ (hpc[a].pc = "wait_run" \/ permit[a] # "none") }) <= Conc[p + 1]

\* C17 / C13: when all scheduled policies have ended every permit is back
\* (a leader that waits for ever for a peer that gave up has NOT ended; the
\* property says nothing about its permit)
AllEnded == \A a \in A : kind[a] = "Stopped" \/ sched[a] = "none"
BudgetRestored == AllEnded => \A p \in Parties : sem[p] = Conc[p + 1]

\* C13 safety: never two notifications; an Ok result only
AtMostOneOutput == \A a \in A : Len(outs[a]) <= 1
NoOutputWithoutDestination == \A a \in A : ~PolOf(a).out => outs[a] = << >>

AllStopped == \A a \in A : kind[a] = "Stopped"
HappyEnd ==
  /\ AllStopped
  /\ \A a \in A : sched[a] = "ok" /\ outs[a] = (IF PolOf(a).out THEN << "ok" >> ELSE << >>)
  /\ \A p \in Parties : sem[p] = Conc[p + 1]

Mismatch(c) == \E p \in Parties : Pol[c][p + 1].prog # Pol[c][LeaderOf(c) + 1].prog \/ Pol[c][p + 1].leader # LeaderOf(c)
IllTyped(c) == \E p \in Parties : ~Pol[c][p + 1].typed
AllCompatible == \A c \in Comps : ~Mismatch(c) /\ ~IllTyped(c)
NoRealFault == budget.cancel = Faults.cancel /\ budget.rpcfail = Faults.rpcfail

\* C13 (no faults) and C14 (stray commands only): whenever nothing can move,
\* the run has ended happily
C13Safety == (AllCompatible /\ NoRealFault /\ Quiescent) => HappyEnd
C14Undisturbed == C13Safety
C13Liveness == <>[]HappyEnd

\* C14: no actor panics; strays are answered with an error
NoPanic == \A a \in A : \A k \in 1..Len(strays[a]) : strays[a][k].res # "panic"
\* (a premature run request at the leader is no invalid command by the time it is handled: it may be accepted;
\* C14Undisturbed demands that the run ends as if it had not been sent)
StraysRejected == \A a \in A : \A k \in 1..Len(strays[a]) : strays[a][k].res = "ok" => strays[a][k].cmd = "RunEarly"

\* C15: after cancel() returned Ok: stopped, exactly one notification for a
\* party with a destination, nothing afterwards, permit back
CancelOk(a) == cancl[a] = "ok"
C15Stopped == \A a \in A : CancelOk(a) => kind[a] = "Stopped"
\* (a state machine cancelled before it was given a policy knows no destination)
C15OneNotification ==
  \A a \in A : (CancelOk(a) /\ PolOf(a).out /\ ckind[a] \notin {"Init", "ValidateRequested"}) => Len(outs[a]) = 1
C15NothingAfter == \A a \in A : ~lastOut[a]
C15PermitBack == \A a \in A : CancelOk(a) => permit[a] = "none"

\* C16: incompatible policies
C16NoMpc == \A c \in Comps : (Mismatch(c) \/ \E p \in Parties : ~Pol[c][p + 1].typed) => ~msgs[c]
C16NoOkOutput == \A c \in Comps : Mismatch(c) => \A p \in Parties : \A k \in 1..Len(outs[<< c, p >>]) : outs[<< c, p >>][k] # "ok"
\* the schedule calls of the mismatching follower(s) and of the leader, and of an
\* ill-typed party, end with an error
C16Rejected ==
  Quiescent => \A c \in Comps : \A p \in Parties :
    LET a == << c, p >> IN
    /\ ~Pol[c][p + 1].typed => sched[a] \in {"err", "stopped"}
    /\ (Mismatch(c) /\ (p = LeaderOf(c) \/ Pol[c][p + 1].prog # Pol[c][LeaderOf(c) + 1].prog
                        \/ Pol[c][p + 1].leader # LeaderOf(c))) => sched[a] \in {"err", "stopped"}

\* C17: a failed validate / run / consts call ends the policy at the caller
\* (with an error notification for run / consts if there is a destination)
C17CallerEnds ==
  Quiescent => \A f \in callFailed :
    /\ kind[f[1]] = "Stopped"
    /\ (f[2] \in {"run", "consts"} /\ PolOf(f[1]).out /\ cancl[f[1]] # "ok") => outs[f[1]] # << >>

\* C17: "after all scheduled policies have ended -- by success, MPC error, ..." -- a policy whose MPC task has finished
\* (result or error delivered, or nothing to deliver) stops and gives its permit back
C17TaskEndEnds == Quiescent => \A a \in A : mtask[a] = "finished" => kind[a] = "Stopped" /\ permit[a] = "none"

\* C15: cancel() always returns
C15Liveness == \A a \in A : (cancl[a] = "called") ~> (cancl[a] # "called")
=============================================================================

------------------------------- MODULE Mon_Adv -------------------------------
(***************************************************************************)
(* Property monitors for runs of the real mpc() in which ONE party c is    *)
(* corrupted (cfg.tag = the scenario of Adversary.tla).  Only honest       *)
(* parties are judged.                                                      *)
(*  C08  no honest party panics or fails to terminate; memory allocated    *)
(*       stays in proportion to the bytes received;                         *)
(*  C03  (family "online") every victim of an applied tampering returns     *)
(*       Err;                                                               *)
(*  C04  (family "pre") likewise for the preprocessing checks;              *)
(*  C02  an honest output party that returns Ok returns the circuit's value *)
(*       on the honest inputs and SOME input of the corrupted party, the    *)
(*       same for all honest Ok parties; an honest non-output party that    *)
(*       returns Ok returns the empty vector.                               *)
(***************************************************************************)
EXTENDS Circuit, TraceBase, FiniteSets

VARIABLES l, cur, res, viol, nchk, napp
vars == << l, cur, res, viol, nchk, napp >>
Init == l = 1 /\ cur = [run |-> "none"] /\ res = << >> /\ viol = << >> /\ nchk = 0 /\ napp = 0
e == Rec[l]

Ps == 0 .. (cur.n - 1)
C == cur.tag.c
Honest == Ps \ {C}
InSet(sq, p) == \E k \in 1..Len(sq) : sq[k] = p
Victims == { cur.tag.victims[k] : k \in 1..Len(cur.tag.victims) }

\* every input the corrupted party could have used instead
Substs == [1..cur.circ.ir[C + 1] -> BOOLEAN]
WithSubst(x) == [p \in 1..cur.n |-> IF p = C + 1 THEN [k \in 1..cur.circ.ir[C + 1] |-> x[k]] ELSE cur.inputs[p]]
OkOutParties == { p \in Honest : res[p].kind = "ok" /\ InSet(cur.po, p) }
Explained == \E x \in Substs : \A p \in OkOutParties : res[p].out = ClearEval(cur.circ, WithSubst(x))

Applied(en) == (\E k \in 1..Len(en.applied) : en.applied[k]) \/ en.taps_hit > 0
Total(sq) == LET RECURSIVE S(_) S(k) == IF k = 0 THEN 0 ELSE sq[k] + S(k - 1) IN S(Len(sq))

\* A forged input label is CONSUMED by an authenticated operation only if its wire (through XOR / NOT) reaches an AND
\* gate: the row is then opened with a wrong key (Wrk17Online.LabelTamper).  Forward taint over the instructions,
\* starting from the registers whose label the deviation alters.
LabelKind == cur.tag.what \in {"input label", "two input labels"}
AlteredRegs == { cur.tag.devs[k].mut.path[1] : k \in 1..Len(cur.tag.devs) }
\* (T maps a register to the offset of its label from the honest one, as the set of flipped bits; XOR is symmetric
\*  difference, so the alteration cancels in x XOR x)
SymD(A, B) == (A \ B) \cup (B \ A)
RECURSIVE Taint(_, _, _)
Taint(k, T, hit) ==
  IF k > Len(cur.circ.insts) THEN hit
  ELSE LET i == cur.circ.insts[k] IN
       CASE i.op = "I" -> Taint(k + 1, T, hit)
         [] i.op = "A" -> Taint(k + 1, [T EXCEPT ![i.out] = {}], hit \/ T[i.a] # {} \/ T[i.b] # {})
         [] i.op = "X" -> Taint(k + 1, [T EXCEPT ![i.out] = SymD(T[i.a], T[i.b])], hit)
         [] OTHER -> Taint(k + 1, [T EXCEPT ![i.out] = T[i.a]], hit)
\* (the atoms are the label bits the deviation flips: two labels altered by the SAME offset cancel in their XOR, as they do
\*  in the evaluator's arithmetic)
FlippedBits(r) == { cur.tag.devs[k].mut.bit : k \in { j \in 1..Len(cur.tag.devs) : cur.tag.devs[j].mut.path[1] = r } }
LabelConsumed == Taint(1, [r \in 0..(cur.circ.mr - 1) |-> IF r \in AlteredRegs THEN FlippedBits(r) ELSE {}], FALSE)

ChannelLoss(err) == err \in {"PreprocessingError.ChannelErr.RecvError", "PreprocessingError.ChannelErr.SendError",
                             "ChannelError.RecvError", "ChannelError.SendError"}
V(prop, what, p) == [prop |-> prop, what |-> what, p |-> p]
FamProp == IF cur.tag.fam = "online" THEN "C03" ELSE "C04"

EndViol(en) ==
  { V("C08", "honest party panicked: " \o res[p].detail, p) : p \in { q \in Honest : res[q].kind = "panic" } }
  \cup { V("C08", "honest party never returns", p) : p \in { q \in Honest : res[q].kind = "hang" } }
  \cup (IF en.peak > 50000000 + 100 * Total(en.brecv)
        THEN { V("C08", "memory allocated out of proportion to the bytes received", 0) } ELSE {})
  \cup (IF cur.tag.expect = "victims" /\ Applied(en) /\ (LabelKind => LabelConsumed)
        THEN { V(FamProp, cur.tag.what \o ": victim returned " \o res[p].kind \o " instead of Err", p) :
                 p \in { q \in Victims \cap Honest : res[q].kind # "err" } }
        ELSE {})
  \* "detect": the victim has to notice by itself; losing the peer (which, being the honest code behind a tampering
  \* channel, stops on its own) is no detection
  \cup (IF cur.tag.expect = "detect" /\ Applied(en) /\ (\A k \in 1..Len(en.applied) : en.applied[k])
        THEN { V(FamProp, cur.tag.what \o ": victim did not detect it (returned " \o res[p].kind
                          \o (IF res[p].kind = "err" THEN " " \o res[p].err ELSE "") \o ")", p) :
                 p \in { q \in Victims \cap Honest : res[q].kind # "err" \/ ChannelLoss(res[q].err) } }
        ELSE {})
  \cup (IF ~Explained
        THEN { V("C02", "honest output parties accepted a value that no input of the corrupted party explains", 0) } ELSE {})
  \cup { V("C02", "honest non-output party returned bits", p) :
           p \in { q \in Honest : res[q].kind = "ok" /\ ~InSet(cur.po, q) /\ res[q].out # << >> } }

SetToSeq(S) == LET RECURSIVE F(_) F(T) == IF T = {} THEN << >> ELSE LET x == CHOOSE y \in T : TRUE IN << x >> \o F(T \ {x}) IN F(S)

Next ==
  /\ l <= NRec /\ l' = l + 1
  /\ cur' = IF e.ev = "cfg" THEN e ELSE cur
  /\ res' = IF e.ev = "cfg" THEN << >> ELSE IF e.ev = "res" THEN (e.p :> e) @@ res ELSE res
  /\ nchk' = IF e.ev = "end" THEN nchk + 1 ELSE nchk
  /\ napp' = IF e.ev = "end" /\ Applied(e) THEN napp + 1 ELSE napp
  /\ viol' = IF e.ev = "end" /\ EndViol(e) # {} /\ Len(viol) < 200
             THEN viol \o [k \in 1..Cardinality(EndViol(e)) |->
                             LET v == SetToSeq(EndViol(e))[k] IN
                             [line |-> l, run |-> cur.run, prop |-> v.prop, what |-> v.what, p |-> v.p]]
             ELSE viol
Spec == Init /\ [][Next]_vars
Report == (l = NRec + 1) => JsonSerialize(IOEnv.OUT, [total |-> NRec, checked |-> nchk, applied |-> napp, viol |-> viol])
=============================================================================

------------------------------- MODULE Mon_C11 -------------------------------
(***************************************************************************)
(* C11: correlated OT of the real KOS/ALSZ/Chou-Orlandi stack.  Party 0    *)
(* sends with correlations d[1], party 1 receives with choices c[2]; with  *)
(* `both`, a second session in the opposite direction follows on the same  *)
(* channel and the same shared random stream.  For every index:             *)
(*     received = sender's zero message  XOR  choice * correlation          *)
(* both sides return vectors of the requested length, the shared stream is *)
(* at the same position on both sides afterwards, and the message sizes    *)
(* are those of the session skeleton (OtExt part of Skeleton.tla).          *)
(***************************************************************************)
EXTENDS TraceBase, Limbs, FiniteSets, Skeleton

VARIABLES l, viol, nchk, nidx
vars == << l, viol, nchk, nidx >>
Init == l = 1 /\ viol = << >> /\ nchk = 0 /\ nidx = 0
e == Rec[l]

RelOk(send, recv, c, d) == \A i \in 1..Len(c) : recv[i] = XorL(send[i], AndBit(c[i] = 1, d[i]))

Expected0(r) == IF r.both THEN OtChain(0, 1, r.m) ELSE KosSenderSess(1, r.m)
Expected1(r) == IF r.both THEN OtChain(1, 0, r.m) ELSE KosReceiverSess(0, r.m)
SendsOf(prog) == LET s == SelectSeq(prog, LAMBDA o : o.d = "S") IN [k \in 1..Len(s) |-> << s[k].ph, s[k].len >>]
Observed(r, p) == LET s == SelectSeq(r.sizes, LAMBDA x : x[1] = p) IN [k \in 1..Len(s) |-> << s[k][2], s[k][3] >>]

Bad(r) ==
  IF r.res[1].st # "ok" \/ r.res[2].st # "ok" THEN "OT failed in an honest run: " \o r.res[1].st \o " / " \o r.res[2].st
  ELSE IF Len(r.res[1].send) # r.m \/ Len(r.res[2].recv) # r.m THEN "result length differs from the requested length"
  ELSE IF r.both /\ (Len(r.res[2].send) # r.m \/ Len(r.res[1].recv) # r.m) THEN "result length differs from the requested length (second session)"
  ELSE IF ~RelOk(r.res[1].send, r.res[2].recv, r.c[2], r.d[1]) THEN "received message is not zero-message XOR choice*correlation"
  ELSE IF r.both /\ ~RelOk(r.res[2].send, r.res[1].recv, r.c[1], r.d[2]) THEN "second session: received message is not zero-message XOR choice*correlation"
  ELSE IF r.res[1].coin # r.res[2].coin THEN "the shared random streams are out of step after the sessions"
  ELSE IF Observed(r, 0) # SendsOf(Expected0(r)) \/ Observed(r, 1) # SendsOf(Expected1(r)) THEN "message sizes differ from the session skeleton"
  ELSE ""

Next ==
  /\ l <= NRec /\ l' = l + 1
  /\ nchk' = IF e.ev = "ot" THEN nchk + 1 ELSE nchk
  /\ nidx' = IF e.ev = "ot" THEN nidx + e.m * (IF e.both THEN 2 ELSE 1) ELSE nidx
  /\ viol' = IF e.ev = "ot" /\ Len(viol) < 10 /\ Bad(e) # ""
             THEN Append(viol, [line |-> l, run |-> e.run, what |-> Bad(e), p |-> 0]) ELSE viol
Spec == Init /\ [][Next]_vars
Report == (l = NRec + 1) => JsonSerialize(IOEnv.OUT, [total |-> NRec, checked |-> nchk, indices |-> nidx, viol |-> viol])
=============================================================================
